"""Simulation kernel shared by every world.

Nothing in here draws random numbers on its own or reads a real clock while a
simulated run executes: all decisions come from the *plan* (pure data) that the
generator derived from VERIF_SEED.  See DESIGN.md section 2.
"""
import hashlib
import json
import random
import threading
import datetime as _dt


# --------------------------------------------------------------------------- PRNG
def derive_seed(*parts):
    h = hashlib.sha256('|'.join(str(p) for p in parts).encode()).digest()
    return int.from_bytes(h[:8], 'big')


def rng(*parts):
    """A private random.Random for (seed, property, run_index, stream)."""
    return random.Random(derive_seed(*parts))


def canonical(obj):
    return json.dumps(obj, sort_keys=True, separators=(',', ':'), default=str)


def sha(obj):
    if not isinstance(obj, (bytes, bytearray)):
        obj = canonical(obj).encode()
    return hashlib.sha256(obj).hexdigest()[:16]


# ---------------------------------------------------------------------- event log
class EventLog:
    """Append-only (seq, actor, kind, detail).  Logging never draws randomness
    and never reads a clock."""

    def __init__(self, keep=4000):
        self.events = []
        self.keep = keep
        self._h = hashlib.sha256()
        self.n = 0

    def add(self, actor, kind, detail=None):
        rec = (self.n, actor, kind, detail)
        self._h.update(canonical(rec).encode())
        self._h.update(b'\n')
        if len(self.events) < self.keep:
            self.events.append(rec)
        self.n += 1

    def digest(self):
        return self._h.hexdigest()[:20]

    def excerpt(self, n=40):
        return [list(e) for e in self.events[:n]]


# ------------------------------------------------------------------------ faults
class SimCrash(BaseException):
    """kill -9 of the simulated process.  BaseException so that no handler of the
    program under test (``except Exception`` / ``except KeyboardInterrupt``)
    can run recovery code a real kill would not run."""


class StepCapExceeded(BaseException):
    """A simulated run used more seam events than its cap: bounded-liveness failure."""


class InjectedFault(RuntimeError):
    """A transient environment failure injected by the simulator (an ordinary
    exception: the program under test is allowed to catch it)."""


class HarnessError(Exception):
    """The simulator itself is wrong or starved; never reported as a violation."""


# ------------------------------------------------------------------------- clock
class SimClock:
    """Every read advances the clock by the next plan increment; the plan may
    schedule forward and backward jumps at given read indices."""
    EPOCH = 1_700_000_000.0

    def __init__(self, increments=(0.001,), jumps=None, log=None):
        self.increments = list(increments) or [0.001]
        self.jumps = {int(k): float(v) for k, v in (jumps or {}).items()}
        self.now = self.EPOCH
        self.reads = 0
        self.jumps_fired = 0
        self.backward_fired = 0
        self.log = log

    def time(self):
        self.now += self.increments[self.reads % len(self.increments)]
        j = self.jumps.get(self.reads)
        if j is not None:
            self.now += j
            self.jumps_fired += 1
            if j < 0:
                self.backward_fired += 1
        self.reads += 1
        return self.now

    @property
    def elapsed(self):
        return self.now - self.EPOCH


class FakeTimeModule:
    """Stands in for the ``time`` module inside the modules under test."""

    def __init__(self, clock):
        self._clock = clock

    def time(self):
        return self._clock.time()

    def perf_counter(self):
        return self._clock.time()

    def monotonic(self):
        return self._clock.time()

    def sleep(self, s):
        self._clock.now += max(0.0, float(s))


def make_fake_datetime(clock):
    class FakeDatetime(_dt.datetime):
        @classmethod
        def now(cls, tz=None):
            t = clock.time()
            return _dt.datetime.fromtimestamp(t, tz if tz is not None else _dt.timezone.utc)

        @classmethod
        def utcnow(cls):
            t = clock.time()
            return _dt.datetime.fromtimestamp(t, _dt.timezone.utc).replace(tzinfo=None)
    return FakeDatetime


# --------------------------------------------------------------------- scheduler
class _Worker:
    def __init__(self, idx, name, fn):
        self.idx = idx
        self.name = name
        self.fn = fn
        self.sem = threading.Semaphore(0)
        self.done = False
        self.exc = None
        self.thread = None


class BatonScheduler:
    """Real threads, exactly one of which runs at any time.  A worker gives the
    baton back at ``yield_point`` (called from intercepted seams); the next
    runner is ``choices[i] % len(runnable)`` (0 once the list is exhausted), so
    an interleaving is a pure function of the plan."""

    def __init__(self, choices, log, step_cap=100000):
        self.choices = list(choices)
        self.ci = 0
        self.log = log
        self.workers = []
        self.main_sem = threading.Semaphore(0)
        self.killed = False
        self.crash = None
        self.steps = 0
        self.step_cap = step_cap
        self.current = None
        self.switches = 0
        self.trace = []
        self._tl = threading.local()

    def spawn(self, name, fn):
        w = _Worker(len(self.workers), name, fn)
        self.workers.append(w)
        return w

    def me(self):
        return getattr(self._tl, 'worker', None)

    def _body(self, w):
        self._tl.worker = w
        w.sem.acquire()
        try:
            if self.killed:
                raise SimCrash('killed before start')
            w.fn()
        except SimCrash as e:
            if self.crash is None:
                self.crash = e
        except BaseException as e:  # noqa - forwarded to the parent like Pool does
            w.exc = e
        finally:
            w.done = True
            self.main_sem.release()

    def yield_point(self, label=''):
        w = self.me()
        if w is None:          # not inside a scheduled worker: nothing to interleave
            return
        self.main_sem.release()
        w.sem.acquire()
        if self.killed:
            raise SimCrash('killed while parked at ' + label)

    def run(self):
        for w in self.workers:
            w.thread = threading.Thread(target=self._body, args=(w,), daemon=True)
            w.thread.start()
        last = None
        while True:
            runnable = [w for w in self.workers if not w.done]
            if not runnable:
                break
            if self.crash is not None and not self.killed:
                self.killed = True
            if self.killed:
                w = runnable[0]
            else:
                c = self.choices[self.ci] if self.ci < len(self.choices) else 0
                self.ci += 1
                w = runnable[c % len(runnable)]
                self.steps += 1
                if self.steps > self.step_cap:
                    self.killed = True
                    self.crash = StepCapExceeded('scheduler step cap')
                    continue
            if last is not None and last is not w:
                self.switches += 1
            last = w
            self.current = w
            if not self.killed:
                self.log.add('sched', 'run', w.name)
                self.trace.append(w.idx)
            w.sem.release()
            self.main_sem.acquire()
        for w in self.workers:
            w.thread.join()
        if self.crash is not None:
            raise self.crash
        for w in self.workers:
            if w.exc is not None:
                raise w.exc


# ------------------------------------------------------------------ violations
class Violation:
    def __init__(self, prop, kind, signature, message, detail=None):
        self.prop = prop
        self.kind = kind
        self.signature = signature
        self.message = message
        self.detail = detail

    def to_json(self):
        return {'property': self.prop, 'kind': self.kind, 'signature': self.signature,
                'message': self.message, 'detail': self.detail}

    @staticmethod
    def from_json(d):
        return Violation(d['property'], d['kind'], d['signature'], d['message'], d.get('detail'))

    def __repr__(self):
        return f'Violation({self.prop}, {self.signature}: {self.message})'


class RunResult:
    """What one simulated run (one plan) produced."""

    def __init__(self):
        self.violations = []
        self.probes = {}
        self.faults = {}
        self.digest = ''
        self.sim_time = 0.0
        self.sim_processes = 0
        self.states = []          # hashable state signatures reached
        self.nontrivial = None    # signature string if the run is non-trivial, else None
        self.excerpt = None
        self.info = {}

    def probe(self, name, n=1):
        self.probes[name] = self.probes.get(name, 0) + n

    def fault(self, name, n=1):
        self.faults[name] = self.faults.get(name, 0) + n

    def to_json(self):
        return {'violations': [v.to_json() for v in self.violations], 'probes': self.probes,
                'faults': self.faults, 'digest': self.digest, 'sim_time': self.sim_time,
                'sim_processes': self.sim_processes, 'states': self.states,
                'nontrivial': self.nontrivial, 'excerpt': self.excerpt, 'info': self.info}
