"""Entry point of a real child process (run as a script): see sim/realproc.py."""
import os
import sys

sys.path.insert(0, os.path.dirname(os.path.dirname(os.path.abspath(__file__))))
from sim import realproc  # noqa: E402

realproc.child(sys.argv[1], sys.argv[2])
