"""Layer-B scenarios in pfworld:

* C08-B  a page's outputs from whole parse_folder runs (sequential, process pool
         with plan-decided chunk/schedule interleavings, crash + resume, permuted
         directory order) equal the outputs of the page processed alone.
* C09-B  the two-process pipeline through durable artefacts: stage 1 (images ->
         crop -> OCR [-> decoder]) writes PAGE XML + logits; stage 2, a new process
         given only those files, re-decodes and exports PAGE XML + ALTO.
"""
import copy
import os
import pickle
import shutil

import numpy as np

from . import content, kernel
from .decworld import gen_decoder_cfg, new_parser, quiet, write_decoder_config
from .pfworld import PfWorld, snapshot, digest_file
from .resume import run_spec, ID_SETS


# ======================================================================= C08-B
def gen_plan_c08b(seed, tier, index):
    r = kernel.rng(seed, 'C08B', tier, index, 'plan')
    x = r.random()
    mode = 'decode' if x < 0.55 else 'ocr' if x < 0.8 else 'layout' if x < 0.9 else 'cnn'
    many = mode == 'ocr' and r.random() < 0.7        # pages whose lines need several OCR batches
    d = gen_decoder_cfg(r, allow_filter=False)
    if r.random() < 0.7:
        d.update({'type': 'FAST-LOG-RAW', 'lm': True, 'carry': True, 'lm_scale': r.choice([1.0, 2.0, 3.0])})
    cfg = {'nchars': d['nchars'], 'space': False, 'interp': r.choice([2, 2, 0]), 'decoder': d}
    big = mode == 'decode' and r.random() < 0.3      # enough pages for Pool chunks of two or more
    npages = r.randint(9, 12) if big else r.randint(2, 5)
    ids = ['p%02d' % k for k in range(npages)] if (big or r.random() < 0.7) else list(ID_SETS['dotted'])[:npages] + ['q%d' % k for k in range(max(0, npages - 4))]
    pages = []
    for pid in ids:
        nl = 1 if big else r.choice([1, 1, 2, 2, 3])
        if many:
            nl = r.randint(4, 14)
        wide = r.choice([40, 55, 70])
        lines = []
        for _ in range(nl):
            b = r.randint(2, 8)
            if many:
                b = r.choice([r.randint(3, 12), r.randint(14, 30), wide, wide, r.randint(30, 70)])
            lines.append({'blocks': b, 'frames': b, 'seed': r.randrange(1 << 30), 'amb': r.choice([0.4, 0.7, 0.8])})
            if mode == 'ocr' and r.random() < 0.4:
                lines[-1]['hsplit'] = r.choice([[10.0, 6.0], [8.0, 8.0], [14.0, 2.0]])
        pages.append({'id': pid, 'ext': '.png', 'lines': lines, 'regions': r.choice([1, 1, 2])})
        if mode == 'ocr' and r.random() < 0.3:
            pages[-1]['xml_style'] = 'transkribus'      # importer guesses heights (global numpy RNG)
            pages[-1]['curved'] = r.random() < 0.6     # 12-point baselines that really bend
    if mode == 'cnn':
        # pages of different text sizes for the CNN layout stage (stub ParseNet), which adapts its analysis
        # resolution to the text size - and remembers it
        for p in pages:
            p['lines'] = [{'blocks': r.randint(4, 12), 'frames': 4, 'seed': r.randrange(1 << 30), 'amb': 0.3} for _ in range(r.randint(2, 4))]
            p['ink_height'] = r.choice([16, 24, 40, 60, 80, 96])
            p['same_left_edge'] = r.random() < 0.5
            p.pop('xml_style', None)
    if mode == 'layout':
        # same-size pages whose text regions come from input PAGE XML with different polygons
        nl, nb = r.randint(2, 4), r.randint(12, 24)
        canvas = [60 + 50 * nl, 80 + 12 * nb]
        for p in pages:
            k = nl if r.random() < 0.6 else r.randint(1, nl)       # same canvas, sometimes a single line of text
            p['lines'] = [{'blocks': r.choice([nb, nb, r.randint(3, nb)]), 'frames': nb, 'seed': r.randrange(1 << 30), 'amb': 0.3,
                           'descenders': r.random() < 0.5} for _ in range(k)]
            p['canvas'] = canvas
            p['region_poly'] = r.choice(['rect', 'rect', 'penta', 'penta2', 'tri_ul', 'tri_lr'])
    if mode == 'ocr' and r.random() < 0.4:
        cfg['postprocess'] = {'stretch': r.choice([16, 40, 40]), 'resample': r.random() < 0.3}
        for p in pages:
            p['tilt'] = r.choice([0, 10, -10])            # regions with different text tilts ...
            if r.random() < 0.4:
                p['lines'] = p['lines'][:1]                  # ... and pages that consist of a single line (a heading)
                p['regions'] = 1
    if mode == 'decode' and r.random() < 0.2:
        cfg['charset'] = 'arabic'
        cfg['space'] = True
        cfg['nchars'] = d['nchars'] = 6
    plan = {'world': 'pf8', 'mode': mode, 'with_images': False, 'cfg': cfg, 'pages': pages,
            'outputs': ['xml'] + (['alto'] if (r.random() < 0.4 or cfg.get('charset') == 'arabic') else []), 'procs': 1,
            'clock': {'inc': [0.001, 0.02], 'jumps': {}}}
    if mode == 'ocr':
        plan['outputs'] += [k for k in ('lines', 'logits') if r.random() < 0.4]
    if mode == 'cnn':
        plan['cfg'].pop('decoder')
        plan['cfg']['cnn_adaptive'] = r.random() < 0.6
        for knob in ('cnn_merge', 'cnn_heights', 'cnn_baselines'):
            plan['cfg'][knob] = r.random() < 0.3
        plan['outputs'] = ['xml'] + [k for k in ('alto', 'logits') if r.random() < 0.4]
    if mode == 'layout':
        plan['regions_from_xml'] = True
        plan['outputs'] = ['xml'] + (['lines'] if r.random() < 0.5 else [])
        plan['cfg'].pop('decoder')
        plan['layout_ocr'] = r.random() < 0.7       # read the detected lines too (then not poolable: TorchScript engine)
        plan['cfg']['ocr_scale'] = 3.0              # a less saturated recogniser: crop quality shows in the confidences
    scen = []
    for _ in range(r.randint(1, 3)):
        kind = r.choice(['seq', 'pool', 'pool', 'crash']) if (mode == 'decode' or (mode == 'layout' and not plan.get('layout_ocr'))) else r.choice(['seq', 'crash'])
        if big and not scen:
            kind = 'pool'
        procs = (2 if big else r.choice([2, 3])) if kind == 'pool' else 1
        p2 = dict(plan, procs=procs)
        s = {'kind': kind, 'run': run_spec(r, p2)}
        s['run']['procs'] = procs
        if kind == 'crash':
            w = sum(len(plan['outputs']) for _ in pages)
            s['crashes'] = [r.randint(1, max(1, w - 1)) for _ in range(r.choice([1, 1, 2]))]
            s['resume'] = run_spec(r, p2)
        scen.append(s)
    if many and r.random() < 0.15:
        # one line far wider than the OCR engine's input budget (3 840 px): it is truncated, on every page alike
        pages[r.randrange(len(pages))]['lines'].append({'blocks': r.randint(480, 500), 'frames': 8, 'seed': r.randrange(1 << 30), 'amb': 0.4})
    if mode == 'ocr' and r.random() < 0.25:
        # transient out-of-memory inside the OCR network on an early page; a later page has a very wide line
        k = r.randrange(len(pages))
        pages[-1]['lines'].append({'blocks': r.randint(250, 330), 'frames': 8, 'seed': r.randrange(1 << 30), 'amb': 0.4})
        scen.append({'kind': 'oom', 'run': dict(run_spec(r, plan), procs=1, ocr_oom_at=r.randint(0, 2))})
    plan['scenarios'] = scen
    return plan


def _page_result_from_xml(path):
    from pero_ocr.core.layout import PageLayout
    lay = PageLayout(file=path)
    return [[ln.id, ln.transcription, ln.transcription_confidence] for ln in lay.lines_iterator()]


def _semantic_difference(rel, path_a, path_b):
    """C08 is about lines, transcriptions and confidences: PAGE XML files are compared as
    [(line id, text, confidence)], ALTO files as [(word, word confidence)] per text line; a missing file is a
    difference; logits, crops and renderings only count through the PAGE XML / ALTO they belong to."""
    if not (os.path.exists(path_a) and os.path.exists(path_b)):
        return True
    kind = rel.split('/')[0]
    try:
        if kind == 'xml':
            return _page_result_from_xml(path_a) != _page_result_from_xml(path_b)
        if kind == 'alto':
            import lxml.etree as ET

            def words(p):
                return [[(s.get('CONTENT'), s.get('WC')) for s in tl.iter('{*}String')] for tl in ET.parse(p).getroot().iter('{*}TextLine')]
            return words(path_a) != words(path_b)
    except Exception:
        return True
    return False


def execute_c08b(plan):
    res = kernel.RunResult()
    log = kernel.EventLog()
    world = PfWorld(plan, res, log)
    d = plan['cfg'].get('decoder') or {}
    try:
        world.setup_inputs()
        world.install()
        ids = [p['id'] for p in plan['pages']]
        # reference: every page alone, in its own simulated process and input folder
        ref = {}
        for k, p in enumerate(plan['pages']):
            ov = {}
            for key, src in (('in_img', world.in_img), ('in_xml', world.in_xml), ('in_logits', world.in_logits)):
                if src:
                    dst = os.path.join(world.root, 'alone%d' % k, key)
                    os.makedirs(dst)
                    for f in os.listdir(src):
                        if os.path.splitext(f)[0] == p['id']:
                            shutil.copy(os.path.join(src, f), os.path.join(dst, f))
                    ov[key] = dst
            out = os.path.join(world.root, 'alone%d' % k, 'out')
            proc = world.simulate_process(out, {'procs': 1}, ov=ov)
            snap = snapshot(out)
            if proc.exit != 'ok' or 'xml/%s.xml' % p['id'] not in snap:
                raise kernel.HarnessError('reference run of page %s alone failed: %s %s' % (p['id'], proc.exit, proc.stdout[-300:]))
            ref[p['id']] = {f: dg for f, dg in snap.items()}
        carry_lm = bool(d.get('carry') and d.get('lm'))
        for si, s in enumerate(plan['scenarios']):
            out = os.path.join(world.root, 'scen%d' % si)
            runs = []
            if s['kind'] == 'crash':
                runs = [dict(s['run'], crash_at=c) for c in s['crashes']] + [s['resume']]
            else:
                runs = [s['run']]
            order = []
            for spec in runs:
                proc = world.simulate_process(out, spec)
                order += proc.processed
                if proc.exit not in ('ok', 'killed'):
                    res.violations.append(kernel.Violation('C08', 'run-failed', 'run-failed|%s' % proc.exit,
                                                           'scenario %d (%s) ended with %s: %s' % (si, s['kind'], proc.exit, proc.stdout[-300:])))
                    break
            if res.violations:
                break
            snap = snapshot(out)
            res.probe('scenario_' + s['kind'])
            if plan['mode'] == 'cnn':
                res.probe('cnn_layout_stage_adaptive' if plan['cfg'].get('cnn_adaptive', True) else 'cnn_layout_stage_fixed_resolution')
            if len(set(order)) >= 2 and carry_lm:
                res.probe('multi_page_run_with_lm_carry')
                res.nontrivial = kernel.sha([plan['cfg'], [p['lines'] for p in plan['pages']], [x['kind'] for x in plan['scenarios']]])
            res.states.append(kernel.sha([kernel.sha(d), s['kind'], order]))
            failed_pages = set()
            if s['kind'] == 'oom':
                # the page whose OCR call hit the injected failure legitimately has no outputs: exempt it,
                # every other page must be unaffected
                failed_pages = {pid for pid in ids if 'xml/%s.xml' % pid not in snap}
                if failed_pages:
                    res.probe('page_failed_by_injected_oom_later_pages_compared')
            for pid in ids:
                if pid in failed_pages:
                    continue
                for f, dg in ref[pid].items():
                    if snap.get(f) != dg and not _semantic_difference(f, os.path.join(out, f),
                                                                      os.path.join(world.root, 'alone%d' % ids.index(pid), 'out', f)):
                        # only geometry / rendering differs: outside the property, which speaks of the lines'
                        # transcriptions and confidences (counted, not asserted)
                        res.probe('difference_confined_to_geometry')
                        continue
                    if snap.get(f) != dg:
                        got = _page_result_from_xml(os.path.join(out, 'xml', pid + '.xml')) if os.path.exists(os.path.join(out, 'xml', pid + '.xml')) else None
                        alone = _page_result_from_xml(os.path.join(world.root, 'alone%d' % ids.index(pid), 'out', 'xml', pid + '.xml'))
                        sig = 'pf-differs-from-alone|%s|carry=%d|lm=%d' % (s['kind'], int(bool(d.get('carry'))), int(bool(d.get('lm'))))
                        if plan['mode'] == 'cnn':
                            sig = 'pf-differs-from-alone|cnn-layout|adaptive_downsample=%d' % int(bool(plan['cfg'].get('cnn_adaptive', True)))
                        res.violations.append(kernel.Violation(
                            'C08', 'history-dependence', sig,
                            'scenario %d (%s, processing order %s): %s of page %r differs from the page processed alone: %s vs %s' % (
                                si, s['kind'], order, f.split('/')[0], pid, got, alone)))
                        break
                if res.violations:
                    break
            if res.violations:
                break
    finally:
        world.uninstall()
        world.cleanup()
    res.digest = log.digest()
    res.sim_time = world.clock.elapsed
    res.excerpt = log.excerpt(40)
    return res


def shrink_c08b(plan):
    for k in range(len(plan['scenarios'])):
        if len(plan['scenarios']) > 1:
            c = copy.deepcopy(plan)
            del c['scenarios'][k]
            yield c
    for k in range(len(plan['pages'])):
        if len(plan['pages']) > 1:
            c = copy.deepcopy(plan)
            del c['pages'][k]
            yield c
    for k, p in enumerate(plan['pages']):
        for j in range(len(p['lines'])):
            if len(p['lines']) > 1:
                c = copy.deepcopy(plan)
                del c['pages'][k]['lines'][j]
                yield c
    for k, s in enumerate(plan['scenarios']):
        if s['kind'] != 'seq':
            c = copy.deepcopy(plan)
            c['scenarios'][k] = {'kind': 'seq', 'run': dict(s['run'], procs=1, schedule=[])}
            yield c
        if s['run'].get('listdir_seed') is not None:
            c = copy.deepcopy(plan)
            c['scenarios'][k]['run']['listdir_seed'] = None
            yield c
    if 'alto' in plan['outputs']:
        c = copy.deepcopy(plan)
        c['outputs'] = ['xml']
        yield c


# ======================================================================= C09-B
def gen_plan_c09b(seed, tier, index):
    r = kernel.rng(seed, 'C09B', tier, index, 'plan')
    d = gen_decoder_cfg(r, allow_filter=False)
    cfg = {'nchars': d['nchars'], 'space': False, 'interp': 2, 'decoder': d}
    npages = r.randint(1, 3)
    pages = []
    for k in range(npages):
        nl = r.choice([0, 1, 2, 2, 3, 4])
        lines = []
        for _ in range(nl):
            b = r.randint(2, 9)
            lines.append({'blocks': b, 'frames': b, 'seed': r.randrange(1 << 30), 'amb': r.choice([0.3, 0.6, 0.8])})
        pages.append({'id': r.choice(['doc', 'scan.0', 'b']) + str(k), 'ext': '.png', 'lines': lines, 'regions': r.choice([1, 1, 2])})
    if r.random() < 0.35:
        # ids where one is a prefix of another and continues with a character that sorts before '.'
        for k, pid in enumerate(['scan', 'scan-verso', 'scan (2)'][:npages]):
            pages[k]['id'] = pid
    fault_free = r.random() < 0.4
    plan = {'world': 'pf9', 'mode': 'ocr', 'with_images': False, 'cfg': cfg, 'pages': pages,
            'outputs': ['xml', 'logits'] + (['alto'] if r.random() < 0.3 else []), 'procs': 1,
            'stage1_decoder': r.random() < 0.3, 'fault_free': fault_free,
            'clock': {'inc': [0.001, 0.02], 'jumps': {}}}
    p1 = dict(plan, procs=1)
    w1 = len(plan['outputs']) * npages
    if r.random() < 0.2:
        plan['producer'] = 'library'
        for pg in pages:
            for ln in pg['lines']:
                if r.random() < 0.3:
                    ln['range'] = r.choice(['logprob', 'subnormal'])
                    ln['dtype'] = 'float64'
    plan['stage1'] = run_spec(r, p1, crash_at=None if fault_free or r.random() < 0.5 else r.randint(0, w1))
    plan['stage1_resume'] = run_spec(r, p1)
    plan['corrupt'] = [] if fault_free else [
        {'page': r.randrange(npages), 'kind': r.choice(['drop', 'drop', 'foreign', 'legacy_nochars', 'legacy_nocoords', 'legacy_both']),
         'sel': r.randrange(1 << 16)} for _ in range(r.choice([0, 0, 1, 1, 2]))]
    procs2 = r.choice([1, 1, 2])
    p2 = dict(plan, procs=procs2)
    plan['stage2'] = run_spec(r, p2, crash_at=None if fault_free or r.random() < 0.6 else r.randint(0, 2 * npages))
    plan['stage2_resume'] = run_spec(r, p2)
    return plan


def _alto_text_from_file(path):
    import lxml.etree as ET
    root = ET.parse(path).getroot()
    return [[st.get('CONTENT') for st in tl.iter('{*}String')] for tl in root.iter('{*}TextLine')]


def execute_c09b(plan):
    from pero_ocr.core.layout import PageLayout
    from .logworld import alto_text
    res = kernel.RunResult()
    log = kernel.EventLog()
    p1 = copy.deepcopy(plan)
    if not plan.get('stage1_decoder'):
        p1['cfg'].pop('decoder', None)
    world = PfWorld(p1, res, log)
    dcfg = dict(plan['cfg']['decoder'], nchars=plan['cfg']['nchars'], space=False)
    captured = {}
    orig_save = PageLayout.save_logits

    def monitored_save(self, file_name, *a, **k):
        snap = copy.copy(self)
        snap.regions = []
        for r in self.regions:
            r2 = copy.copy(r)
            r2.lines = []
            for ln in r.lines:
                l2 = copy.copy(ln)
                l2.crop = None
                r2.lines.append(l2)
            snap.regions.append(r2)
        captured[self.id] = copy.deepcopy(snap)
        for ln in captured[self.id].lines_iterator():
            ln.transcription_confidence = None      # the original as a one-process flow would decode it
        return orig_save(self, file_name, *a, **k)

    def viol(kind, sig, msg):
        res.violations.append(kernel.Violation('C09', kind, sig, msg))

    try:
        world.setup_inputs()
        cdir2 = os.path.join(world.root, 'cfg2')
        os.makedirs(cdir2)
        ini2 = write_decoder_config(cdir2, dcfg, run_decoder=True)
        world.install()
        ids = [p['id'] for p in plan['pages']]
        s1 = os.path.join(world.root, 's1')
        s2 = os.path.join(world.root, 's2')
        ov2 = {'ini': ini2, 'in_img': None, 'in_xml': os.path.join(s1, 'xml'), 'in_logits': os.path.join(s1, 'logits'),
               'outputs': ['xml', 'alto']}
        PageLayout.save_logits = monitored_save
        try:
            if plan.get('producer') == 'library':
                # the artefacts were not written by parse_folder but by some other program using the library
                # (an earlier version, a GPU stage, a conversion script): PAGE XML + logits saved directly
                os.makedirs(os.path.join(s1, 'xml'))
                os.makedirs(os.path.join(s1, 'logits'))
                for pg in plan['pages']:
                    lay = world.logit_layout(pg)
                    lay.to_pagexml(os.path.join(s1, 'xml', pg['id'] + '.xml'))
                    lay.save_logits(os.path.join(s1, 'logits', pg['id'] + '.logits'))
                res.probe('artefacts_written_by_library_code')
                proc = None
            else:
                proc = world.simulate_process(s1, plan['stage1'])
            if proc is not None and proc.exit == 'killed':
                res.probe('stage1_killed')
                snap1 = snapshot(s1)
                orphans = [p for p in ids if 'xml/%s.xml' % p in snap1 and 'logits/%s.logits' % p not in snap1]
                if orphans:
                    # an early consumer meets PAGE XML whose logits were never written
                    PageLayout.save_logits = orig_save
                    early = world.simulate_process(s2, dict(plan['stage2'], crash_at=None), ov=ov2)
                    snap2 = snapshot(s2)
                    for p in orphans:
                        made = [f for f in snap2 if f in ('xml/%s.xml' % p, 'alto/%s.xml' % p)]
                        if made or ('Failed to process file %s' % p) not in early.stdout:
                            viol('fabricated', 'output-without-logits', 'stage 2 produced %s for page %r whose logits file does not exist (reported=%s)' % (
                                made, p, ('Failed to process file %s' % p) in early.stdout))
                    res.probe('consumer_met_xml_without_logits', len(orphans))
                    shutil.rmtree(s2, ignore_errors=True)
                    PageLayout.save_logits = monitored_save
                proc = world.simulate_process(s1, plan['stage1_resume'])
            if proc is not None and proc.exit != 'ok':
                raise kernel.HarnessError('stage 1 did not finish: %s %s' % (proc.exit, proc.stdout[-300:]))
        finally:
            PageLayout.save_logits = orig_save
        if res.violations:
            return res
        missing = [p for p in ids if p not in captured or not os.path.exists(os.path.join(s1, 'logits', p + '.logits'))]
        if missing:
            viol('producer', 'stage1-wrote-no-logits', 'an unkilled stage-1 run that was asked for logits left no logits file for %s' % missing)
            return res
        # --- faults on the durable artefacts between the stages
        lost = {p: set() for p in ids}
        legacy = set()
        for c in plan['corrupt']:
            pid = ids[c['page'] % len(ids)]
            path = os.path.join(s1, 'logits', pid + '.logits')
            dct = pickle.load(open(path, 'rb'))
            lids = sorted(k for k in dct if k not in ('line_characters', 'logit_coords'))
            rr = kernel.rng(c['sel'], 'corrupt')
            if c['kind'] == 'drop' and lids:
                gone = [i for i in lids if rr.random() < 0.5] or [lids[0]]
                for i in gone:
                    dct.pop(i, None)
                    dct.get('line_characters', {}).pop(i, None)
                    dct.get('logit_coords', {}).pop(i, None)
                lost[pid] |= set(gone)
                res.fault('stored_entries_lost', len(gone))
            elif c['kind'] == 'foreign':
                from scipy import sparse
                dct['zz-foreign'] = sparse.csc_matrix(np.full((2, plan['cfg']['nchars'] + 1), 2.5, dtype=np.float32))
                if 'line_characters' in dct:
                    dct['line_characters']['zz-foreign'] = ['?']
                if 'logit_coords' in dct:
                    dct['logit_coords']['zz-foreign'] = [0, 1]
                res.fault('foreign_entries_added')
            elif c['kind'].startswith('legacy'):
                if c['kind'] in ('legacy_nochars', 'legacy_both'):
                    dct.pop('line_characters', None)
                if c['kind'] in ('legacy_nocoords', 'legacy_both'):
                    dct.pop('logit_coords', None)
                legacy.add(pid)
                res.fault('legacy_file_format')
            with open(path, 'wb') as f:
                pickle.dump(dct, f, protocol=4)
            log.add('sim', 'corrupt', [pid, c['kind']])
        # --- stage 2: a new process that only has the files
        proc = world.simulate_process(s2, plan['stage2'], ov=ov2)
        if proc.exit == 'killed':
            res.probe('stage2_killed')
            proc = world.simulate_process(s2, plan['stage2_resume'], ov=ov2)
        if proc.exit != 'ok':
            viol('consumer', 'stage2-failed|%s' % proc.exit, 'stage 2 ended with %s: %s' % (proc.exit, proc.stdout[-300:]))
            return res
        carry = bool(dcfg.get('carry') and dcfg.get('lm'))
        for pid in ids:
            xmlp = os.path.join(s2, 'xml', pid + '.xml')
            if not os.path.exists(xmlp):
                viol('consumer', 'stage2-output-missing', 'stage 2 wrote no PAGE XML for %r: %s' % (pid, proc.stdout[-300:]))
                break
            got = PageLayout(file=xmlp)
            with quiet():
                ref_out = new_parser(ini2).process_page(None, copy.deepcopy(captured[pid]))
            ref_tr = [(ln.id, ln.transcription) for ln in ref_out.lines_iterator()]
            got_tr = dict((ln.id, ln.transcription) for ln in got.lines_iterator())
            order = [i for i, _ in ref_tr]
            exempt = set(lost[pid])
            if carry and exempt:
                first = min([order.index(i) for i in exempt if i in order] or [len(order)])
                exempt |= set(order[first:])
            for i, t in ref_tr:
                if i in exempt:
                    res.probe('lost_entry_met')
                    continue
                if got_tr.get(i) != t:
                    viol('consumer', 'redecode-differs', 'page %r line %s: stage 2 re-decoded %r, the original in-memory layout decodes to %r' % (pid, i, got_tr.get(i), t))
                    break
            if res.violations:
                break
            if not lost[pid] and pid not in legacy:
                a2 = _alto_text_from_file(os.path.join(s2, 'alto', pid + '.xml'))
                a1 = alto_text(ref_out)
                if a1 != a2:
                    viol('consumer', 'alto-text-differs', 'page %r: ALTO text from stage 2 %s, from the original layout %s' % (pid, a2, a1))
                    break
            if any(t for _, t in ref_tr):
                has_pruned = any(ln.logits is not None and 0 < ln.logits.nnz < ln.logits.shape[0] * ln.logits.shape[1]
                                 for ln in captured[pid].lines_iterator())
                if has_pruned:
                    res.probe('stage2_redecoded_line_with_stored_and_pruned_cells')
                    res.nontrivial = kernel.sha([plan['cfg'], plan['pages'], plan['corrupt'], plan['stage1'].get('crash_at'), plan['stage2'].get('crash_at')])
            res.states.append(kernel.sha([pid, sorted(lost[pid]), pid in legacy, plan['stage1'].get('crash_at'), plan['stage2'].get('crash_at')]))
    finally:
        PageLayout.save_logits = orig_save
        world.uninstall()
        world.cleanup()
        res.digest = log.digest()
        res.sim_time = world.clock.elapsed
        res.excerpt = log.excerpt(40)
    return res


def shrink_c09b(plan):
    for k in range(len(plan['corrupt'])):
        c = copy.deepcopy(plan)
        del c['corrupt'][k]
        yield c
    for key in ('stage1', 'stage2'):
        if plan[key].get('crash_at') is not None:
            c = copy.deepcopy(plan)
            c[key]['crash_at'] = None
            yield c
    for k in range(len(plan['pages'])):
        if len(plan['pages']) > 1:
            c = copy.deepcopy(plan)
            del c['pages'][k]
            yield c
    for k, p in enumerate(plan['pages']):
        for j in range(len(p['lines'])):
            c = copy.deepcopy(plan)
            del c['pages'][k]['lines'][j]
            yield c
    if plan.get('stage1_decoder'):
        c = copy.deepcopy(plan)
        c['stage1_decoder'] = False
        yield c
    if 'alto' in plan['outputs']:
        c = copy.deepcopy(plan)
        c['outputs'] = ['xml', 'logits']
        yield c
