"""decworld: long-lived PageParser / PageDecoder objects driven through generated
histories (C08 layer A).

Real code: PageParser.__init__/process_page/update_confidences/filter_confident_lines,
page_decoder_factory, PageDecoder, decoder_factory, CTCPrefixLogRawNumpyDecoder /
GreedyDecoder, LMWrapper, HiddenState, BagOfHypotheses, TextLine.get_full_logprobs.
Stub: the trained language model (sim.toylm, a seeded LSTM).
"""
import configparser
import contextlib
import io
import json
import os
import pickle
import shutil

from . import content, kernel, toylm

_counter = [0]


def scratch_dir(tag):
    _counter[0] += 1
    d = '/dev/shm/verif-%s-%d-%d' % (tag, os.getpid(), _counter[0])
    if os.path.exists(d):
        shutil.rmtree(d)
    os.makedirs(d)
    return d


def write_decoder_config(d, cfg, run_decoder=True, extra_sections=None):
    """Writes ocr.json, the toy LM spec and config.ini into d; returns the ini path."""
    chars = content.charset(cfg['nchars'], cfg.get('space', False), cfg.get('charset', 'ascii'))
    with open(os.path.join(d, 'ocr.json'), 'w') as f:
        json.dump({'characters': chars, 'line_px_height': 16, 'line_vertical_scale': 1.0,
                   'checkpoint': 'ocr.pt', 'net_name': 'stub'}, f)
    ini = configparser.ConfigParser()
    ini.optionxform = str
    ini['PAGE_PARSER'] = {'RUN_LAYOUT_PARSER': 'no', 'RUN_LINE_CROPPER': 'no', 'RUN_OCR': 'no',
                          'RUN_DECODER': 'yes' if run_decoder else 'no'}
    if cfg.get('filter_threshold') is not None:
        ini['PAGE_PARSER']['FILTER_CONFIDENT_LINES_THRESHOLD'] = str(cfg['filter_threshold'])
    ini['OCR'] = {'OCR_JSON': 'ocr.json', 'USE_CPU': 'yes'}
    if run_decoder:
        dec = {'TYPE': cfg['type'], 'USE_CPU': 'yes', 'CARRY_H_OVER': 'yes' if cfg.get('carry') else 'no'}
        if cfg['type'] == 'FAST-LOG-RAW':
            dec['BEAM_SIZE'] = str(cfg['beam'])
            dec['LM_SCALE'] = str(cfg['lm_scale'])
            dec['INSERTION_BONUS'] = str(cfg['insertion_bonus'])
            if cfg.get('lm'):
                toylm.write_spec(os.path.join(d, 'toy.lm'), chars, cfg['lm_hidden'], cfg['lm_seed'],
                                 sharpness=cfg['lm_sharpness'])
                dec['LM'] = 'toy.lm'
        if cfg.get('conf_threshold') is not None:
            dec['CONFIDENCE_THRESHOLD'] = str(cfg['conf_threshold'])
        ini['DECODER'] = dec
    for name, sec in (extra_sections or {}).items():
        if name in ini:
            ini[name].update(sec)
        else:
            ini[name] = sec
    path = os.path.join(d, 'config.ini')
    with open(path, 'w') as f:
        ini.write(f)
    return path


def gen_decoder_cfg(r, allow_filter=True):
    cfg = {'nchars': r.choice([3, 4, 5]), 'type': 'FAST-LOG-RAW' if r.random() < 0.88 else 'GREEDY'}
    cfg['beam'] = r.choice([1, 2, 3, 4, 6])
    cfg['lm_scale'] = r.choice([0.0, 0.3, 1.0, 2.0, 3.0])
    cfg['insertion_bonus'] = r.choice([0.0, 0.0, 0.5, -0.5, 1.0])
    cfg['lm'] = cfg['type'] == 'FAST-LOG-RAW' and r.random() < 0.8
    cfg['carry'] = bool(cfg['lm'] and r.random() < 0.8)
    cfg['lm_hidden'] = r.choice([4, 6, 8])
    cfg['lm_seed'] = r.randrange(1 << 16)
    cfg['lm_sharpness'] = r.choice([1.0, 3.0, 6.0])
    cfg['conf_threshold'] = r.choice([None, None, 'inf', 0.0, 0.3, 0.9, 0.99, 1.0])
    cfg['filter_threshold'] = r.choice([0.3, 0.6]) if (allow_filter and r.random() < 0.12) else None
    return cfg


def gen_page(r, pid, max_lines=4):
    n = r.choice([0, 1, 1, 2, 2, 3, 3, 4][:2 * max_lines])
    lines = []
    for j in range(n):
        lines.append({'frames': r.randint(1, 8), 'seed': r.randrange(1 << 30), 'amb': r.choice([0.2, 0.5, 0.8]),
                      'coords': r.choice(['std', 'std', 'std', 'zero', 'none'])})
    return {'id': pid, 'lines': lines, 'regions': r.choice([1, 1, 2])}


def gen_plan(seed, tier, index):
    r = kernel.rng(seed, 'C08', tier, index, 'plan')
    cfg = gen_decoder_cfg(r)
    npages = r.randint(2, 5)
    pages = [gen_page(r, 'pg%d' % k) for k in range(npages)]
    nops = r.randint(2, 10)
    ops = []
    for _ in range(nops):
        x = r.random()
        inst = r.choice([0, 0, 0, 1, 2])
        if x < 0.78:
            op = {'op': 'process', 'inst': inst, 'page': r.randrange(npages)}
            if r.random() < 0.12:
                op['reuse'] = True       # the very same PageLayout object again (after an ALTO export, as parse_folder does)
            y = r.random()
            if y < 0.08:
                op['fault'] = {'kind': 'lm_exc', 'where': r.choice(['advance_h0', 'log_probs', 'add_line_end',
                                                                    'initial_h_from_line', 'initial_h']),
                               # small = inside the first line; large = a later (often the last) line of the page
                               'nth': r.randint(0, 6) if r.random() < 0.5 else r.randint(7, 150)}
            elif y < 0.14:
                op['fault'] = {'kind': 'missing_logits', 'line': r.randint(0, 3)}
            ops.append(op)
        elif x < 0.9:
            ops.append({'op': 'fork', 'inst': inst})
        else:
            ops.append({'op': 'restart', 'inst': inst})
    return {'world': 'dec', 'cfg': cfg, 'pages': pages, 'ops': ops,
            'clock': {'inc': [r.choice([0.001, 0.01, 0.5]) for _ in range(3)],
                      'jumps': {str(r.randint(0, 20)): r.choice([-3600.0, 86400.0, -0.5])} if r.random() < 0.3 else {}}}


class _FaultyMethod:
    def __init__(self, obj, name, nth, res):
        self.obj, self.name, self.nth, self.res = obj, name, nth, res
        self.calls = 0
        self.orig = getattr(obj, name)

    def __call__(self, *a, **kw):
        n = self.calls
        self.calls += 1
        if n == self.nth:
            self.res.fault('lm_transient_exception')
            raise kernel.InjectedFault('injected transient failure in LM call %s #%d' % (self.name, n))
        return self.orig(*a, **kw)


@contextlib.contextmanager
def quiet():
    out, err = io.StringIO(), io.StringIO()
    with contextlib.redirect_stdout(out), contextlib.redirect_stderr(err):
        yield out, err


def patch_modules(clock):
    from pero_ocr.decoding import decoding_itf
    from pero_ocr.document_ocr import page_parser
    decoding_itf.construct_lm = toylm.construct_lm
    ft = kernel.FakeTimeModule(clock)
    page_parser.time = ft
    decoding_itf.time = ft


def new_parser(ini_path):
    import torch
    from pero_ocr.document_ocr.page_parser import PageParser
    config = configparser.ConfigParser()
    config.read(ini_path)
    return PageParser(config, config_path=os.path.dirname(ini_path), device=torch.device('cpu'))


def decoder_state_sig(parser):
    dec = getattr(parser, 'decoder', None)
    if dec is None:
        return 'nodec'
    return '%s|%s' % ('h' if getattr(dec, 'last_h', None) else '-', getattr(dec, 'last_line', None))


def execute(plan):
    res = kernel.RunResult()
    log = kernel.EventLog()
    clock = kernel.SimClock(plan['clock']['inc'], plan['clock']['jumps'], log)
    cfg = plan['cfg']
    chars = content.charset(cfg['nchars'], cfg.get('space', False), cfg.get('charset', 'ascii'))
    d = scratch_dir('dec')
    try:
        with quiet():
            patch_modules(clock)
            ini = write_decoder_config(d, cfg)
            instances = {}
            processed = {}          # inst -> number of unfaulted pages since creation/fork
            refs = {}
            pending = {}
            last_objects = {}
            carry_lm = bool(cfg.get('carry') and cfg.get('lm'))
            shape = []
            for k, op in enumerate(plan['ops']):
                i = op['inst']
                if op['op'] == 'restart' or i not in instances:
                    instances[i] = new_parser(ini)
                    processed[i] = 0
                    res.sim_processes += 1
                    if op['op'] == 'restart':
                        log.add('inst%d' % i, 'restart')
                        shape.append('R')
                        continue
                if op['op'] == 'fork':
                    instances[i] = pickle.loads(pickle.dumps(instances[i]))
                    res.fault('pickle_round_trip')
                    log.add('inst%d' % i, 'fork')
                    shape.append('F')
                    continue
                spec = plan['pages'][op['page']]
                layout = content.build_layout(spec, chars)
                # (with FILTER_CONFIDENT_LINES_THRESHOLD the first pass removes lines from the object: it is then
                # no longer the same page, so that configuration is excluded)
                if op.get('reuse') and op['page'] in last_objects and not op.get('fault') and not cfg.get('filter_threshold'):
                    layout = last_objects[op['page']]
                    try:
                        layout.to_altoxml_string()
                    except Exception:
                        pass
                    res.probe('same_layout_object_processed_again')
                fault = op.get('fault')
                wrapper = None
                lm = None
                if fault:
                    if fault['kind'] == 'missing_logits':
                        lines = list(layout.lines_iterator())
                        if lines:
                            lines[fault['line'] % len(lines)].logits = None
                            res.fault('line_without_logits')
                        else:
                            fault = None
                    elif fault['kind'] == 'lm_exc':
                        lm = getattr(getattr(getattr(instances[i], 'decoder', None), 'decoder', None), '_lm', None)
                        if lm is None:
                            fault = None
                        else:
                            wrapper = _FaultyMethod(lm, fault['where'], fault['nth'], res)
                            setattr(lm, fault['where'], wrapper)
                failed = None
                fired_before = res.faults.get('lm_transient_exception', 0)
                try:
                    out = instances[i].process_page(None, layout)
                    result = content.layout_result(out)
                except Exception as e:  # what Computator swallows per page
                    failed = type(e).__name__
                    result = None
                finally:
                    if wrapper is not None:
                        delattr(lm, fault['where'])
                if fault and fault['kind'] == 'lm_exc' and res.faults.get('lm_transient_exception', 0) == fired_before:
                    fault = None          # the n-th call never happened: not a faulted page
                log.add('inst%d' % i, 'process', [spec['id'], kernel.sha(result), failed])
                if failed is None and not fault:
                    last_objects[op['page']] = layout
                else:
                    last_objects.pop(op['page'], None)
                res.states.append(kernel.sha([kernel.sha(cfg), decoder_state_sig(instances[i])]))
                if fault:
                    res.probe('faulted_page_exempt')
                    shape.append('X')
                    processed[i] += 1     # still a predecessor for whatever follows
                    pending[i] = True
                    continue
                shape.append('P')
                if pending.pop(i, False):
                    res.probe('fault_swallowed_then_later_page_compared')
                if op['page'] not in refs:
                    fresh = new_parser(ini)
                    try:
                        refs[op['page']] = content.layout_result(
                            fresh.process_page(None, content.build_layout(spec, chars)))
                    except Exception as e:
                        refs[op['page']] = 'failed:' + type(e).__name__
                ref = refs[op['page']]
                got = result if failed is None else 'failed:' + failed
                if processed[i] >= 1:
                    res.probe('page_after_predecessor')
                    if carry_lm and len(spec['lines']) > 0:
                        res.probe('instance_processed_2plus_pages_with_lm_carry')
                        res.nontrivial = kernel.sha([cfg, ''.join(shape)])
                processed[i] += 1
                if got != ref:
                    what = 'failure'
                    if isinstance(got, list) and isinstance(ref, list):
                        if [x[0] for x in got] != [x[0] for x in ref]:
                            what = 'lines'
                        elif [x[1] for x in got] != [x[1] for x in ref]:
                            what = 'transcription'
                        else:
                            what = 'confidence'
                    sig = 'differs-from-alone|%s|carry=%d|lm=%d' % (what, int(bool(cfg.get('carry'))), int(bool(cfg.get('lm'))))
                    res.violations.append(kernel.Violation(
                        'C08', 'history-dependence', sig,
                        'op %d: page %s on instance %d gives %s, alone on a fresh instance %s' % (k, spec['id'], i, got, ref),
                        {'op_index': k}))
                    break
            res.info['shape'] = ''.join(shape)
    finally:
        shutil.rmtree(d, ignore_errors=True)
    res.digest = log.digest()
    res.sim_time = clock.elapsed
    res.excerpt = log.excerpt(30)
    return res


def shrink_candidates(plan):
    import copy
    ops = plan['ops']
    for k in range(len(ops)):
        c = copy.deepcopy(plan)
        del c['ops'][k]
        if c['ops']:
            yield c
    for k, op in enumerate(ops):
        if op.get('fault'):
            c = copy.deepcopy(plan)
            del c['ops'][k]['fault']
            yield c
        if op.get('inst'):
            c = copy.deepcopy(plan)
            c['ops'][k]['inst'] = 0
            yield c
    for p, page in enumerate(plan['pages']):
        for j in range(len(page['lines'])):
            c = copy.deepcopy(plan)
            del c['pages'][p]['lines'][j]
            yield c
        if page.get('regions', 1) != 1:
            c = copy.deepcopy(plan)
            c['pages'][p]['regions'] = 1
            yield c
        for j, ln in enumerate(page['lines']):
            if ln['frames'] > 1:
                c = copy.deepcopy(plan)
                c['pages'][p]['lines'][j]['frames'] = ln['frames'] - 1
                yield c
    if plan['clock']['jumps']:
        c = copy.deepcopy(plan)
        c['clock']['jumps'] = {}
        yield c
    for key, simple in (('conf_threshold', None), ('filter_threshold', None), ('insertion_bonus', 0.0), ('beam', 1)):
        if plan['cfg'].get(key) != simple:
            c = copy.deepcopy(plan)
            c['cfg'][key] = simple
            yield c
