"""C17: crash/resume histories of parse_folder in pfworld, checked against an
executable model of the resume protocol and against an uninterrupted run."""
import copy
import os

from . import kernel
from .pfworld import PfWorld, snapshot, id_class, KINDS
from .decworld import gen_decoder_cfg

ID_SETS = {
    'plain': ['p1', 'p2', 'page-3', 'q4'],
    'dotted': ['a.b', 'scan.001', 'x.y.z', 'p1'],
    'ext': ['a.jpg.z', 'b.xml.c', 'c.logits.d', 'x.jpg'],
    'alias': ['a', 'a.jpg.z', 'b', 'b.xml.c'],
    'alias2': ['c', 'c.logits.1', 'a.xml', 'a'],
    'prefix': ['scan-7', 'scan-7-2', 'scan', 'scan (2)'],
    'case': ['Page_1', 'page_1', 'zeta', 'Zeta'],
    'hidden': ['.cover', 'p1', '.b.2', 'q4'],
}
ALLOWED = {'ocr': ['xml', 'render', 'logits', 'alto', 'lines'],
           'decode': ['xml', 'alto'],
           'decode_img': ['xml', 'render', 'alto', 'lines'],
           'crop': ['xml', 'render', 'lines'],
           'layout': ['xml', 'render', 'lines']}


def gen_config(r, index=None, subset_cycle=False, force_mode=None):
    x = r.random()
    mode = force_mode or ('ocr' if x < 0.5 else 'decode' if x < 0.72 else 'crop' if x < 0.87 else 'layout')
    with_images = mode == 'decode' and r.random() < 0.5
    allowed = ALLOWED['decode_img' if with_images else mode]
    if subset_cycle and index is not None and mode == 'ocr':
        mask = index % 31 + 1
        outputs = [k for i, k in enumerate(KINDS) if mask >> i & 1]
    else:
        outputs = [k for k in allowed if r.random() < 0.6]
        if not outputs:
            outputs = [r.choice(allowed)]
    cls = r.choice(['plain', 'plain', 'dotted', 'ext', 'alias', 'alias', 'alias2', 'prefix', 'case', 'hidden'])
    npages = r.randint(1, 4)
    ids = list(ID_SETS[cls])
    if cls.startswith('alias') or cls in ('prefix', 'case'):
        ids = ids[:max(2, npages)]
    else:
        r.shuffle(ids)
        ids = ids[:npages]
    pages = []
    for pid in ids:
        nl = r.choice([0, 1, 1, 2, 2, 3])
        if r.random() < 0.04:
            nl = r.randint(9, 14)          # a page with many lines
        lines = []
        for j in range(nl):
            b = r.randint(2, 8)
            lines.append({'blocks': b, 'frames': b, 'seed': r.randrange(1 << 30), 'amb': r.choice([0.2, 0.4, 0.7])})
            if r.random() < 0.3:
                lines[-1]['hsplit'] = r.choice([[10.0, 6.0], [8.0, 8.0], [14.0, 2.0]])
        pages.append({'id': pid, 'ext': r.choice(['.png', '.png', '.jpg', '.PNG']), 'lines': lines,
                      'regions': r.choice([1, 1, 2])})
    if mode in ('ocr', 'crop') and len(pages) >= 2 and r.random() < 0.12:
        pages[r.randrange(len(pages))]['no_xml'] = True       # image without PAGE XML + --skipp-missing-xml
    if mode in ('ocr', 'crop', 'layout') and r.random() < 0.08:
        pages[r.randrange(len(pages))]['sidecar'] = True      # '<id>.txt' next to '<id>.png' in the image folder
    cfg = {'nchars': r.choice([3, 4, 5]), 'space': False, 'interp': r.choice([2, 2, 0])}
    if mode == 'decode' or (mode == 'ocr' and r.random() < 0.4):
        d = gen_decoder_cfg(r, allow_filter=False)
        d['nchars'] = cfg['nchars']
        cfg['decoder'] = d
    procs = 1 if mode == 'ocr' else r.choice([1, 1, 2, 3])
    if mode in ('crop', 'decode') and not with_images and index is None and r.random() < 0.06:
        # enough pages for string order and numeric order of the ids to differ (p10 < p2)
        pages = [{'id': 'p%d' % k, 'ext': '.png', 'regions': 1,
                  'lines': [{'blocks': 3, 'frames': 3, 'seed': r.randrange(1 << 30), 'amb': 0.3}]} for k in range(1, r.randint(11, 13))]
    plan = {'world': 'pf', 'mode': mode, 'with_images': with_images, 'cfg': cfg, 'pages': pages,
            'outputs': outputs, 'procs': procs, 'ids_class': cls,
            'transcriptions_file': r.random() < 0.15,
            'paths_in_config': [k for k in outputs if r.random() < 0.5] if r.random() < 0.25 else [],
            'folders': folder_layout(r, outputs),
            'junk': r.random() < 0.15,
            'lmdb': mode == 'ocr' and 'lines' in outputs and r.random() < 0.25,
            'delete_output_before_resume': {'page': r.randrange(8), 'kind': r.randrange(4)} if r.random() < 0.08 else None,
            'input_subfolder': r.random() < 0.08,       # a sub-directory (with an image) inside the image folder: not an input
            'odd_out_name': r.random() < 0.1,          # output root with glob / regex metacharacters in its name
            'input_mtime': r.choice([None, None, None, None, 'future', 'touch_before_resume']),
            'late_pages': [pages[-1]['id']] if (len(pages) >= 2 and r.random() < 0.1 and not pages[-1].get('no_xml')) else [],
            'clock': {'inc': [r.choice([0.001, 0.05, 2.0]) for _ in range(3)],
                      'jumps': {str(r.randint(0, 30)): r.choice([-3600.0, 86400.0, -1.5])} if r.random() < 0.3 else {}}}
    if plan['lmdb']:
        # crops go into an LMDB environment (the folder name contains 'lmdb'): its own folder, named on the command line
        plan['junk'] = False
        plan['folders'] = {k: v for k, v in plan['folders'].items() if k != 'lines'}
        plan['paths_in_config'] = [k for k in plan['paths_in_config'] if k != 'lines']
    return plan


def folder_layout(r, outputs):
    """Mostly one folder per output kind; sometimes PAGE XML nested inside the ALTO folder, or line crops
    sharing the render folder (both legitimate and handled by the driver)."""
    x = r.random()
    if x < 0.08 and 'xml' in outputs and 'alto' in outputs:
        return {'xml': 'alto/page'}
    if x < 0.16 and 'render' in outputs and 'lines' in outputs:
        return {'lines': 'render'}
    if x < 0.2 and 'logits' in outputs and 'xml' in outputs:
        return {'logits': 'xml/logits'}
    return {}


def writes_per_page(plan, p):
    n = 0
    for k in plan['outputs']:
        n += len(p['lines']) if k == 'lines' else 1
    return n


def total_writes(plan):
    return sum(writes_per_page(plan, p) for p in plan['pages'] if not p.get('no_xml')) + (1 if plan.get('transcriptions_file') else 0)


def run_spec(r, plan, crash_at=None):
    return {'crash_at': crash_at, 'procs': plan['procs'],
            'listdir_seed': r.randrange(1 << 30) if r.random() < 0.7 else None,
            'schedule': [r.randrange(8) for _ in range(64)] if plan['procs'] > 1 else [],
            'rng_seed': r.randrange(1 << 30)}


def make_plan(seed, tier, index, n_layer_a, subset_cycle):
    r = kernel.rng(seed, 'C17', tier, index, 'plan')
    if index < n_layer_a:
        plan = gen_config(r, index, subset_cycle=subset_cycle, force_mode='ocr' if (subset_cycle and index % 2 == 0) else None)
        plan['layer'] = 'A'
        plan['enumerate'] = True
        plan['runs'] = [run_spec(r, plan)]        # template for the crashed run
        plan['resume'] = run_spec(r, plan)
        plan['nothing'] = run_spec(r, plan)
    else:
        plan = gen_config(r)
        plan['layer'] = 'B'
        w = total_writes(plan)
        ncrash = r.choice([1, 2, 2, 3, 3])
        plan['runs'] = [run_spec(r, plan, crash_at=r.randint(0, max(1, w - (0 if k == 0 else r.randint(0, w))))) for k in range(ncrash)]
        if len(plan['outputs']) >= 2 and not plan['paths_in_config'] and not plan.get('lmdb') and r.random() < 0.12:
            # the killed runs were started with fewer requested output kinds than the resume
            # (only a kind that --skip-processed consults may be added later: line crops are tied to the other
            # outputs of their page by the write order, so adding them to a finished batch is a different request,
            # not a resume)
            tracked = [k for k in plan['outputs'] if k != 'lines']
            drop = r.choice(tracked) if len(tracked) >= 2 else None
            if drop:
                for rs in plan['runs']:
                    rs['outputs'] = [k for k in plan['outputs'] if k != drop]
        for rs in plan['runs']:
            if r.random() < 0.2:
                # instead of (or in addition to) a kill: a transient failure of one page - an exception while
                # processing it, or a write error on one of its outputs; the driver reports it and carries on
                pg = r.choice([p['id'] for p in plan['pages'] if not p.get('no_xml')])
                rs['fail'] = {'page': pg, 'at_write': r.choice([None, 0, 1, 2])}
                if r.random() < 0.6:
                    rs['crash_at'] = None
        plan['resume'] = run_spec(r, plan)
        plan['nothing'] = run_spec(r, plan)
    return plan


# ------------------------------------------------------------------ the model
def tracked_requested(plan):
    t = [k for k in ('xml', 'logits', 'render', 'alto') if k in plan['outputs']]
    return '+'.join(t) if t else 'none'


def page_bitmap(exp_p, snap):
    bits = []
    for kind in KINDS:
        if kind in exp_p:
            fs = exp_p[kind]
            have = sum(1 for f in fs if f in snap)
            bits.append('1' if have == len(fs) else ('p' if have else '0'))
    return ''.join(bits)


def is_complete(exp_p, snap):
    return all(f in snap for fs in exp_p.values() for f in fs)


def missing_kinds(exp_p, snap):
    return [k for k in KINDS if k in exp_p and any(f not in snap for f in exp_p[k])]


def touch_inputs(world, offset):
    """Gives every input file a new modification time (re-synced folder, scanner with a wrong clock)."""
    import time as _t
    for src in (world.in_img, world.in_xml, world.in_logits):
        if src:
            for f in os.listdir(src):
                t = _t.time() + offset
                os.utime(os.path.join(src, f), (t, t))
    world.res.fault('input_mtimes_changed')


def seed_junk(world, out):
    """Unrelated files that already sit in the output folders (a desktop database, a note): they must be
    ignored and must survive."""
    if not world.plan.get('junk'):
        return
    for kind in world.plan['outputs']:
        d = os.path.join(out, world.dirname(kind))
        os.makedirs(d, exist_ok=True)
        for name, data in (('Thumbs.db', b'\x00junk'), ('readme.txt', b'not an output\n')):
            with open(os.path.join(d, name), 'wb') as f:
                f.write(data)
    world.res.probe('unrelated_files_in_output_folders')


def check_history(world, tree, runs, gt_snap, exp, label):
    """Runs a history (list of process specs; the last two are the uninterrupted resume
    and the nothing-left run) and checks every run against the resume model.
    Returns the first Violation or None."""
    plan, res = world.plan, world.res
    if plan.get('odd_out_name'):
        tree = tree + ' [1890] (a+b)'
        res.probe('output_root_with_metacharacters')
    out = os.path.join(world.root, tree)
    seed_junk(world, out)
    ids = [p['id'] for p in plan['pages'] if not p.get('no_xml')]
    bitmaps = []
    V = None
    nontrivial = False
    n = len(runs)
    crashed_inside = False
    late = set(plan.get('late_pages') or [])
    if late and n > 2:
        world.hide_inputs(late)
        res.probe('input_pages_arriving_before_the_resume')
    for ri, spec in enumerate(runs):
        role = 'nothing' if ri == n - 1 else ('resume' if ri == n - 2 else 'crash')
        if late and role == 'resume':
            world.restore_inputs()
            late = set()
        if role == 'resume' and plan.get('input_mtime') == 'touch_before_resume':
            touch_inputs(world, 0.0)
        if role == 'resume' and plan.get('delete_output_before_resume'):
            # the user removes one output of a finished page between the runs: the page has to be redone
            sel = plan['delete_output_before_resume']
            now = snapshot(out)
            done = [p for p in ids if is_complete(exp[p], now)]
            if done:
                victim = done[sel['page'] % len(done)]
                kinds = [k for k in ('xml', 'render', 'logits', 'alto') if k in exp[victim] and exp[victim][k]]
                if kinds:
                    f = exp[victim][kinds[sel['kind'] % len(kinds)]][0]
                    os.remove(os.path.join(out, f))
                    res.fault('output_of_finished_page_deleted_by_user')
                    log_msg = [victim, f]
                    world.log.add('sim', 'user-deletes-output', log_msg)
        run_kinds = spec.get('outputs')
        if run_kinds is not None:
            res.probe('earlier_run_requested_fewer_outputs')
        before = snapshot(out)
        bm = tuple(page_bitmap(exp[p], before) for p in ids)
        bitmaps.append(bm)
        res.states.append(kernel.sha([world.cfg_sig, bm]))
        complete_before = {p for p in ids if is_complete(exp[p], before)}
        present = [p for p in ids if p not in late]
        proc = world.simulate_process(out, spec)
        after = snapshot(out)
        processed = list(proc.processed)
        # a page also counts as processed when any of its output files was written (keeps the oracle
        # independent of how the driver happens to call the page parser)
        prefix = os.path.basename(out) + '/'
        for wpath in proc.writes:
            rel = wpath[len(prefix):] if wpath.startswith(prefix) else wpath
            owners = [p for p in ids if any(rel == f for fs in exp[p].values() for f in fs)]
            for p in owners:
                if p not in processed:
                    processed.append(p)
        # ... or when outputs of it appeared that were not there before (independent of any seam)
        for p in ids:
            if p not in processed and any(f in after and f not in before for fs in exp[p].values() for f in fs):
                processed.append(p)
        killed = proc.exit == 'killed'
        if killed and 0 < proc.writes_done:
            crashed_inside = True
        if killed:
            res.probe('crash_inside_batch' if proc.writes_done > 0 else 'crash_before_first_write')
            partial = [p for p in ids if not is_complete(exp[p], after) and any(f in after for fs in exp[p].values() for f in fs)]
            if len(partial) >= 2:
                res.probe('crash_with_2plus_pages_partial')
        if role != 'crash' and complete_before and [p for p in ids if p not in complete_before] and crashed_inside:
            if set(processed) and (set(ids) - set(processed)):
                nontrivial = True
                res.probe('resume_skipped_and_processed')
        # (3) no repeated work
        again = [p for p in processed if p in complete_before]
        if again:
            p = again[0]
            V = kernel.Violation('C17', 'repeated-work', 'reprocessed-complete|tracked=%s|ids=%s' % (tracked_requested(plan), id_class(p, ids)),
                                 '%s run %d (%s): page %r had every requested output and was processed again' % (label, ri, role, p))
            break
        # the tree only grows; outputs of pages that were complete are never altered.  (A page that was NOT
        # complete is processed again by design and may rewrite what it had - with a request that grew since
        # the earlier run even with other content; for those pages the final comparison with the
        # uninterrupted run decides.)
        owner = {f: p for p in ids for fs in exp[p].values() for f in fs}
        for f, dg in before.items():
            if f not in after:
                V = kernel.Violation('C17', 'lost-output', 'output-removed', '%s run %d: %s disappeared' % (label, ri, f))
                break
            if after[f] != dg and f != 'transcriptions.txt' and owner.get(f, None) not in (set(ids) - complete_before):
                V = kernel.Violation('C17', 'altered-output', 'output-altered|%s' % f.split('/')[0], '%s run %d: existing output %s was rewritten with different content' % (label, ri, f))
                break
        if V:
            break
        if killed:
            continue
        # the process was not killed before finishing its writes
        work_left = [p for p in present if p not in complete_before]
        if run_kinds is not None:
            work_left = [p for p in present if not is_complete({k: fs for k, fs in exp[p].items() if k in run_kinds}, before)]
        if not proc.killed_at_exit and proc.exit != 'ok':
            V = kernel.Violation('C17', 'unclean-exit', 'unclean-exit|%s|%s' % (proc.exit, 'work-left' if work_left else 'nothing-left'),
                                 '%s run %d (%s): process ended with %s (%s)' % (label, ri, role, proc.exit, getattr(proc, 'exc_text', '')))
            break
        skipped = [p for p in work_left if p not in processed]
        if skipped:
            p = skipped[0]
            V = kernel.Violation('C17', 'skipped', 'skipped-incomplete|missing=%s|ids=%s' % ('+'.join(missing_kinds(exp[p], before)), id_class(p, ids)),
                                 '%s run %d (%s): page %r lacks %s but was not processed' % (label, ri, role, p, missing_kinds(exp[p], before)))
            break
        failed = set(getattr(proc, 'failed_pages', []) or [])
        if failed:
            res.probe('page_failed_transiently')
        exp_run = exp if run_kinds is None else {p: {k: fs for k, fs in exp[p].items() if k in run_kinds} for p in exp}
        bad = [p for p in present if not is_complete(exp_run[p], after) and p not in failed]
        if bad:
            p = bad[0]
            V = kernel.Violation('C17', 'incomplete', 'incomplete-after-clean-run|missing=%s' % '+'.join(missing_kinds(exp[p], after)),
                                 '%s run %d (%s): page %r still lacks %s after an unkilled run; stdout tail: %s' % (label, ri, role, p, missing_kinds(exp[p], after), proc.stdout[-300:]))
            break
        if role == 'nothing' and (processed or proc.writes_done > (1 if plan.get('transcriptions_file') else 0)):
            V = kernel.Violation('C17', 'repeated-work', 'nothing-left-run-did-work', '%s run %d: nothing was left but %s processed / %d writes' % (label, ri, processed, proc.writes_done))
            break
        # (2) equality with the uninterrupted run (not yet for a run in which a page failed transiently)
        if gt_snap is not None and not failed and not late and run_kinds is None:
            for f, dg in gt_snap.items():
                if f == 'transcriptions.txt':
                    continue
                if f not in after:
                    V = kernel.Violation('C17', 'incomplete', 'missing-vs-uninterrupted|%s' % f.split('/')[0], '%s run %d: %s exists after an uninterrupted run but not here' % (label, ri, f))
                    break
                if after[f] != dg:
                    V = kernel.Violation('C17', 'differs', 'output-differs|%s' % f.split('/')[0], '%s run %d (%s): %s differs from the uninterrupted run' % (label, ri, role, f))
                    break
            if V:
                break
            extra = [f for f in after if f not in gt_snap]
            if extra:
                V = kernel.Violation('C17', 'differs', 'unexpected-file|%s' % extra[0].split('/')[0], '%s run %d: %s is not produced by an uninterrupted run' % (label, ri, extra[0]))
                break
    if plan.get('late_pages'):
        world.restore_inputs()          # (also when a violation cut the history short)
    if nontrivial:
        nt = res.nontrivial if isinstance(res.nontrivial, list) else []
        nt.append(kernel.sha([world.cfg_sig, bitmaps]))
        res.nontrivial = nt
    return V


def config_signature(plan):
    return kernel.sha([plan['mode'], plan.get('with_images'), sorted(plan['outputs']), plan['procs'],
                       [(p['id'], len(p['lines'])) for p in plan['pages']], bool(plan['cfg'].get('decoder')),
                       plan.get('transcriptions_file')])


def execute(plan, world_cls=PfWorld):
    res = kernel.RunResult()
    log = kernel.EventLog()
    world = world_cls(plan, res, log)
    world.cfg_sig = config_signature(plan)
    evaluations = 0
    try:
        world.setup_inputs()
        world.install()
        exp = world.expected_files()
        if plan.get('input_mtime') == 'future':
            touch_inputs(world, 86400.0)
        ids = [p['id'] for p in plan['pages'] if not p.get('no_xml')]
        if len(ids) < len(plan['pages']):
            res.probe('image_without_xml_skipped')
        if any(id_class(p, ids) == 'ext' for p in ids):
            res.probe('id_with_extension_token_or_alias')
        # ground truth: uninterrupted sequential run in a fresh tree
        gt_spec = dict(plan['resume'], crash_at=None, procs=1, listdir_seed=None)
        seed_junk(world, os.path.join(world.root, 'gt'))
        gt_proc = world.simulate_process(os.path.join(world.root, 'gt'), gt_spec)
        gt_snap = snapshot(os.path.join(world.root, 'gt'))
        if plan.get('lmdb'):
            res.probe('lmdb_line_output')
        if (plan['mode'] == 'layout' or plan.get('lmdb')) and 'lines' in plan['outputs']:
            # the detected lines are not known in advance: a page's crops are those of the uninterrupted run
            for p in ids:
                exp[p]['lines'] = []
            other_outputs = {f for p in ids for kind, fs in exp[p].items() if kind != 'lines' for f in fs}
            for f in sorted(gt_snap):
                ld = world.dirname('lines')
                if f in other_outputs:
                    continue        # shared folder: 'scan-7.jpg' is the render of page scan-7, not a crop of page scan
                if f.startswith(ld + '/') and f.count('/') == ld.count('/') + 1:
                    owners = [p for p in ids if f.startswith('%s/%s-' % (ld, p))]
                    if owners:          # ids may be prefixes of each other (scan-7, scan-7-2): the longest one owns the crop
                        exp[max(owners, key=len)]['lines'].append(f)
            res.probe('layout_mode_lines_from_ground_truth')
        bad = [p for p in ids if not is_complete(exp[p], gt_snap)]
        if gt_proc.exit != 'ok' or bad:
            res.violations.append(kernel.Violation(
                'C17', 'uninterrupted', 'uninterrupted-run-failed|%s' % gt_proc.exit,
                'an uninterrupted run ended with %s and left %s incomplete; stdout tail: %s' % (gt_proc.exit, bad, gt_proc.stdout[-400:]),
                {'plan': plan}))
            evaluations = 1
        elif plan.get('enumerate'):
            w = gt_proc.writes_done
            res.info['crash_points'] = w + 1
            for k in range(w + 1):
                runs = [dict(plan['runs'][0], crash_at=k), plan['resume'], plan['nothing']]
                v = check_history(world, 'k%d' % k, runs, gt_snap, exp, 'crash@%d' % k)
                evaluations += 1
                import shutil
                shutil.rmtree(os.path.join(world.root, 'k%d' % k), ignore_errors=True)
                if v is not None:
                    single = copy.deepcopy(plan)
                    single['enumerate'] = False
                    single['layer'] = 'A1'
                    single['runs'] = [dict(plan['runs'][0], crash_at=k)]
                    v.detail = {'plan': single, 'crash_at': k}
                    if not any(x.signature == v.signature for x in res.violations):
                        res.violations.append(v)
            res.probe('configurations_enumerated')
        else:
            runs = list(plan['runs']) + [plan['resume'], plan['nothing']]
            v = check_history(world, 'h', runs, gt_snap, exp, 'history')
            evaluations += 1
            if v is not None:
                v.detail = {'plan': plan}
                res.violations.append(v)
            if len(plan['runs']) >= 2:
                res.probe('multi_crash_history')
    finally:
        world.uninstall()
        world.cleanup()
    res.info['evaluations'] = max(1, evaluations)
    res.digest = log.digest()
    res.sim_time = world.clock.elapsed
    res.excerpt = log.excerpt(60)
    if world.clock.jumps_fired:
        res.fault('clock_jump', world.clock.jumps_fired)
    if world.clock.backward_fired:
        res.fault('clock_jump_backward', world.clock.backward_fired)
    return res


def shrink_candidates(plan):
    # fewer crashes
    for k in range(len(plan['runs'])):
        if len(plan['runs']) > 1:
            c = copy.deepcopy(plan)
            del c['runs'][k]
            yield c
    # fewer pages
    for k in range(len(plan['pages'])):
        if len(plan['pages']) > 1:
            c = copy.deepcopy(plan)
            del c['pages'][k]
            yield c
    # fewer lines
    for k, p in enumerate(plan['pages']):
        for j in range(len(p['lines'])):
            c = copy.deepcopy(plan)
            del c['pages'][k]['lines'][j]
            yield c
    # fewer outputs
    for kind in plan['outputs']:
        if len(plan['outputs']) > 1:
            c = copy.deepcopy(plan)
            c['outputs'].remove(kind)
            yield c
    if plan['procs'] > 1:
        c = copy.deepcopy(plan)
        c['procs'] = 1
        for rs in c['runs'] + [c['resume'], c['nothing']]:
            rs['procs'] = 1
            rs['schedule'] = []
        yield c
    for key in ('runs',):
        for k, rs in enumerate(plan[key]):
            if rs.get('listdir_seed') is not None:
                c = copy.deepcopy(plan)
                c[key][k]['listdir_seed'] = None
                yield c
            if rs.get('crash_at'):
                c = copy.deepcopy(plan)
                c[key][k]['crash_at'] = rs['crash_at'] - 1
                yield c
    for key in ('resume', 'nothing'):
        if plan[key].get('listdir_seed') is not None:
            c = copy.deepcopy(plan)
            c[key]['listdir_seed'] = None
            yield c
    if plan['clock'].get('jumps'):
        c = copy.deepcopy(plan)
        c['clock']['jumps'] = {}
        yield c
    if plan.get('transcriptions_file'):
        c = copy.deepcopy(plan)
        c['transcriptions_file'] = False
        yield c
    if plan['cfg'].get('decoder') and plan['mode'] == 'ocr':
        c = copy.deepcopy(plan)
        del c['cfg']['decoder']
        yield c
    # plain ids
    if any('.' in p['id'] for p in plan['pages']):
        c = copy.deepcopy(plan)
        for k, p in enumerate(c['pages']):
            p['id'] = 'p%d' % k
        yield c
    for k, p in enumerate(plan['pages']):
        if p.get('ext', '.png') != '.png':
            c = copy.deepcopy(plan)
            c['pages'][k]['ext'] = '.png'
            yield c
