"""Stub ParseNet for the CNN layout stage (LAYOUT_CNN).

Only the *network* is a stub: a TorchScript module that derives the five ParseNet output maps from the
image with plain image operations, saved as a checkpoint and loaded by the real TorchParseNet with
torch.jit.load.  TorchParseNet (incl. its adaptive choice of the analysis resolution), LayoutEngine.detect /
parse / make_clusters / clustered_lines_to_polygons, LayoutExtractor and the region/line assignment helpers
are the real code.

Maps (as the engine documents them): 0 ascender height, 1 descender height, 2 baseline probability,
3 baseline end points, 4 region boundaries - all at the resolution of the (downsampled) network input.
"""
import os

import numpy as np

from . import stubocr


def ensure_parsenet(d, name='parsenet.pt'):
    """Writes <d>/<name>.cpu (idempotent) and returns the MODEL_PATH value for the config."""
    import torch
    path = os.path.join(d, name + '.cpu')
    if not os.path.exists(path):
        class StubParseNet(torch.nn.Module):
            def forward(self, x):
                # ink = anything that is not paper white
                ink = ((x.min(dim=1, keepdim=True).values) < 0.6).float()
                below = torch.nn.functional.pad(ink[:, :, 1:, :], (0, 0, 0, 1))
                base = ink * (1.0 - below)                       # bottom edge of an ink run
                run = torch.zeros_like(ink)
                acc = torch.ones_like(ink)
                for k in range(48):                              # height of the ink run above each pixel
                    shifted = torch.nn.functional.pad(ink, (0, 0, k, 0))[:, :, :ink.shape[2], :]
                    acc = acc * shifted
                    run = run + acc
                basew = torch.nn.functional.max_pool2d(base, kernel_size=(1, 9), stride=1, padding=(0, 4))
                asc = torch.nn.functional.max_pool2d(run * base, kernel_size=(1, 9), stride=1, padding=(0, 4))
                up = torch.nn.functional.pad(basew[:, :, 1:, :], (0, 0, 0, 1))
                dn = torch.nn.functional.pad(basew[:, :, :-1, :], (0, 0, 1, 0))
                prob = torch.clamp(basew + 0.5 * up + 0.5 * dn, max=1.0)
                zeros = torch.zeros_like(ink)
                return torch.cat([asc, 0.25 * asc, prob, zeros, zeros], dim=1), zeros
        torch.jit.script(StubParseNet()).save(path)
    return name


def paint_cnn_page(page_spec, nchars):
    """White paper with lines of coloured ink blocks whose HEIGHT is a per-page parameter ('ink_height'):
    the CNN layout stage adapts its analysis resolution to the text size it finds."""
    nl = max(1, len(page_spec['lines']))
    bar = int(page_spec.get('ink_height', 24))
    pitch = bar + 44
    width = 100 + 24 * max([ln['blocks'] for ln in page_spec['lines']] + [6])
    height = 60 + pitch * nl
    if page_spec.get('canvas'):
        height, width = page_spec['canvas']
    img = np.full((height, width, 3), 255, dtype=np.uint8)
    for j, ln in enumerate(page_spec['lines']):
        rs = np.random.RandomState(int(ln['seed']) % (2 ** 31))
        y = 30 + bar + pitch * j
        x0 = 40 if page_spec.get('same_left_edge') else 40 + 9 * (j % 5)     # flush-left text or ragged left edge
        for b in range(int(ln['blocks'])):
            x = x0 + 24 * b
            sym = int(rs.randint(0, nchars))
            img[y - bar:y, x:x + 20] = np.asarray(stubocr.COLORS[sym], dtype=np.uint8)
    return img
