"""The stub OCR network and the synthetic page images that drive it.

The *network* is the only stub: a TorchScript module (colour -> class by nearest
colour, mean over the line height, average pooling by 4 along the line) saved as a
real checkpoint next to a real ocr.json and loaded by the real
PytorchEngineLineOCR with torch.jit.load.  Cropping, batching, padding, CTC greedy
decoding, sparsification and everything after it are the real code.
"""
import json
import os

import numpy as np

LINE_HEIGHT = 16
HEIGHTS = (12.0, 4.0)
BLOCK = 8                     # pixels per symbol block -> 2 frames at subsampling 4
COLORS = [(255, 0, 0), (0, 255, 0), (0, 0, 255), (255, 255, 0), (255, 0, 255), (0, 255, 255), (255, 128, 0)]


def ensure_engine_files(d, chars, scale=8.0):
    """Writes ocr.json and the TorchScript checkpoint ocr.pt.cpu into d (idempotent)."""
    import torch
    js = os.path.join(d, 'ocr.json')
    ck = os.path.join(d, 'ocr.pt.cpu')
    if not os.path.exists(js):
        with open(js, 'w') as f:
            json.dump({'characters': list(chars), 'line_px_height': LINE_HEIGHT, 'line_vertical_scale': 1.0,
                       'checkpoint': 'ocr.pt', 'net_name': 'stub-colour-net'}, f)
    if not os.path.exists(ck):
        k = len(chars)
        cols = torch.tensor([[c / 255.0 for c in COLORS[i]] for i in range(k)] + [[0.0, 0.0, 0.0]])

        class StubNet(torch.nn.Module):
            def __init__(self):
                super().__init__()
                self.register_buffer('cols', cols)
                self.scale = float(scale)

            def forward(self, x):
                m = x.mean(dim=2)                                   # N,3,W
                m = torch.nn.functional.avg_pool1d(m, 4)            # N,3,W/4
                dot = torch.einsum('kc,ncw->nkw', self.cols, m)
                sq = (self.cols * self.cols).sum(dim=1).unsqueeze(0).unsqueeze(2)
                out = self.scale * (2.0 * dot - sq)                  # N,K+1,T ; the last class is the blank
                # a little context, as every real line recogniser has: the average colour of the whole (padded)
                # input row nudges every frame towards the classes that dominate the line
                ctx = torch.einsum('kc,nc->nk', self.cols, m.mean(dim=2))
                out = out + self.scale * 0.4 * ctx.unsqueeze(2)
                # the blank is 'no colour': black (padding, page background) as well as white paper
                chroma = m.max(dim=1).values - m.min(dim=1).values  # N,T
                blank = self.scale * (1.5 - 3.0 * chroma)
                return torch.cat([out[:, :-1, :], blank.unsqueeze(1)], dim=1)
        torch.jit.script(StubNet()).save(ck)
    return js


def symbols_for_line(line_spec, nchars):
    """The painted symbol sequence of a line: ints in [0, nchars) or -1 (blank block)
    or (a, b, t) for a blended colour block (ambiguous frame)."""
    rs = np.random.RandomState(int(line_spec['seed']) % (2 ** 31))
    n = int(line_spec['blocks'])
    seq = []
    for _ in range(n):
        r = rs.rand()
        if r < 0.2:
            seq.append(-1)
        elif r < 0.2 + line_spec.get('amb', 0.3):
            a, b = rs.randint(0, nchars), rs.randint(-1, nchars)
            seq.append((int(a), int(b), float(rs.choice([0.35, 0.45, 0.5, 0.55]))))
        else:
            seq.append(int(rs.randint(0, nchars)))
    return seq


def _color(sym):
    if isinstance(sym, tuple):
        a, b, t = sym
        ca = np.asarray(COLORS[a], dtype=float)
        cb = np.zeros(3) if b < 0 else np.asarray(COLORS[b], dtype=float)
        return ((1 - t) * ca + t * cb).round().astype(np.uint8)
    if sym < 0:
        return np.zeros(3, dtype=np.uint8)
    return np.asarray(COLORS[sym], dtype=np.uint8)


def page_geometry(page_spec):
    nl = len(page_spec['lines'])
    width = 40 + BLOCK * max([ln['blocks'] for ln in page_spec['lines']] + [4])
    height = 30 + 36 * max(1, nl)
    lines = []
    for j, ln in enumerate(page_spec['lines']):
        y = 28 + 36 * j
        x0, x1 = 16, 16 + BLOCK * ln['blocks']
        lines.append({'id': ln.get('id', 'l%03d' % j), 'y': y, 'x0': x0, 'x1': x1,
                      'hsplit': tuple(ln.get('hsplit', HEIGHTS))})
    return height, width, lines


def paint_page(page_spec, nchars):
    """uint8 BGR image: each line is a row of colour blocks inside its text band."""
    height, width, geo = page_geometry(page_spec)
    img = np.zeros((height, width, 3), dtype=np.uint8)
    for ln, g in zip(page_spec['lines'], geo):
        seq = symbols_for_line(ln, nchars)
        for b, sym in enumerate(seq):
            xs = g['x0'] + b * BLOCK
            # the ink occupies exactly the line's ascender/descender band, so that a crop taken with a
            # wrong vertical grid sees background rows
            img[g['y'] - int(g['hsplit'][0]):g['y'] + int(g['hsplit'][1]), xs:xs + BLOCK] = _color(sym)
    return img


def page_xml(page_spec, page_id, style='pero', regions_only=False, size=None):
    """Input PAGE XML with the line geometry (no text): what a layout stage would hand over.
    style 'transkribus': no heights in @custom, 12-point baselines and polygons whose height varies along
    the line, so that the importer has to guess the heights (it draws from numpy's global RNG).
    regions_only: just TextRegions (polygon given by page_spec['region_poly']) for a line detector to fill."""
    from xml.sax.saxutils import quoteattr
    height, width, geo = page_geometry(page_spec)
    if size is not None:
        height, width = size
    out = ['<?xml version="1.0" encoding="UTF-8"?>',
           '<PcGts xmlns="http://schema.primaresearch.org/PAGE/gts/pagecontent/2019-07-15">',
           '  <Page imageFilename=%s imageWidth="%d" imageHeight="%d">' % (quoteattr(page_id), width, height)]
    nreg = max(1, int(page_spec.get('regions', 1)))
    if regions_only:
        w, h = width - 1, height - 1
        poly = {'rect': [(4, 4), (w - 4, 4), (w - 4, h - 4), (4, h - 4)],
                'penta': [(4, 4), (w - 4, 4), (w - 4, h - 4), (w // 2, h - 4), (4, h // 2)],
                'penta2': [(4, 4), (w // 2, 4), (w - 4, h // 2), (w - 4, h - 4), (4, h - 4)],
                'tri_ul': [(4, 4), (w - 4, 4), (4, h - 4)],
                'tri_lr': [(w - 4, 4), (w - 4, h - 4), (4, h - 4)]}[page_spec.get('region_poly', 'rect')]
        out.append('    <TextRegion id="r1"><Coords points="%s"/></TextRegion>' % ' '.join('%d,%d' % p for p in poly))
        nreg = 0
    for r in range(nreg):
        out.append('    <TextRegion id="r%d"><Coords points="0,0 %d,0 %d,%d 0,%d"/>' % (r + 1, width, width, height, height))
        for j, g in enumerate(geo):
            if j % nreg != r:
                continue
            y, x0, x1 = g['y'], g['x0'], g['x1']
            if style == 'transkribus':
                n = 12
                xs = [x0 + (x1 - x0) * i / (n - 1.0) for i in range(n)]
                tops = [y - 12 - (i * 7 % 5) for i in range(n)]
                bend = [0, 1, 1, 2, 2, 2, 2, 2, 1, 1, 0, 0] if page_spec.get('curved') else [0] * n
                out.append('      <TextLine id=%s index="%d">' % (quoteattr(g['id']), j))
                pts = ['%d,%d' % (round(x), t) for x, t in zip(xs, tops)] + ['%d,%d' % (round(x), y + 4) for x in reversed(xs)]
                out.append('        <Coords points="%s"/>' % ' '.join(pts))
                out.append('        <Baseline points="%s"/>' % ' '.join('%d,%d' % (round(x), y + b) for x, b in zip(xs, bend)))
            else:
                tl = int(page_spec.get('tilt', 0))           # the right end of every line is tl pixels lower
                out.append('      <TextLine id=%s index="%d" custom="heights_v2:[%.1f,%.1f]">' % (quoteattr(g['id']), j, g['hsplit'][0], g['hsplit'][1]))
                out.append('        <Coords points="%d,%d %d,%d %d,%d %d,%d"/>' % (x0, y - 12, x1, y - 12 + tl, x1, y + 4 + tl, x0, y + 4))
                out.append('        <Baseline points="%d,%d %d,%d"/>' % (x0, y, x1, y + tl))
            out.append('      </TextLine>')
        out.append('    </TextRegion>')
    out.append('  </Page>')
    out.append('</PcGts>')
    return '\n'.join(out) + '\n'


def paint_text_page(page_spec):
    """White page with dark word-like bars in line bands: input for the model-free layout
    parsers (REGION_WHOLE_PAGE + LINES_SIMPLE_THRESHOLD), which need no XML and no network."""
    nl = len(page_spec['lines'])
    width = 80 + 12 * max([ln['blocks'] for ln in page_spec['lines']] + [6])
    height = 60 + 50 * max(1, nl)
    if page_spec.get('canvas'):
        height, width = page_spec['canvas']          # same-size pages with different amounts of text
    img = np.full((height, width, 3), 255, dtype=np.uint8)
    for j, ln in enumerate(page_spec['lines']):
        rs = np.random.RandomState(int(ln['seed']) % (2 ** 31))
        y = 40 + 50 * j
        nch = int(page_spec.get('ink_colours', 0))
        for b in range(int(ln['blocks'])):
            if rs.rand() < 0.85:
                x = 30 + 12 * b
                ink = np.asarray(COLORS[rs.randint(0, nch)], dtype=np.uint8) if nch else 0   # coloured ink: readable by the stub OCR
                img[y - 14:y, x:x + 8] = ink
                if ln.get('descenders') and rs.rand() < 0.4:
                    img[y:y + 9, x + 2:x + 5] = ink      # glyph-like descender below the body
    return img
