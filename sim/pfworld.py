"""pfworld: the whole ``user_scripts/parse_folder.py`` batch driver as simulated
processes over a scratch directory tree (C17, C09 layer B, C08 layer B).

A simulated process = one call of the real ``parse_folder.main()`` with its
environment behind proxies the simulator owns:
  file writes      ``layout.open`` (PAGE/ALTO/logits), ``parse_folder.cv2.imwrite`` (render, crops),
                   ``parse_folder.open`` (transcription list)        -> write seams, crash points
  directory order  ``parse_folder.os.listdir``                        -> plan-decided permutation
  clock            ``parse_folder.time``, ``page_parser.time``, ``layout.datetime`` -> SimClock
  process pool     ``parse_folder.Pool``                              -> SimPool (baton-scheduled threads)
  process death    SimCrash raised at a write seam; afterwards only the directory tree survives
"""
import builtins
import collections
import contextlib
import copy
import hashlib
import io
import os
import pickle
import re
import shutil
import sys

import numpy as np

from . import content, kernel, stubocr, toylm
from .decworld import write_decoder_config, scratch_dir

KINDS = ['xml', 'render', 'logits', 'alto', 'lines']
TRACKED_TODAY = ['xml', 'logits', 'render', 'alto']     # informational (what the driver consults)
EXT_TOKENS = ('.xml', '.jpg', '.logits')

_ACTIVE = [None]            # the world whose simulated process is currently running


# ----------------------------------------------------------------------- proxies
class OsProxy:
    def __init__(self, world):
        self._w = world

    def __getattr__(self, name):
        return getattr(os, name)

    def listdir(self, path='.'):
        lst = sorted(os.listdir(path))
        w = self._w
        p = w.proc
        if p is not None and p.listdir_seed is not None:
            kernel.rng(p.listdir_seed, os.path.basename(str(path)), p.listdir_calls).shuffle(lst)
            p.listdir_calls += 1
            if lst != sorted(lst):
                w.res.fault('listdir_permuted')
        w.log.add(w.actor(), 'listdir', [w.rel(path), len(lst)])
        return lst


class Cv2Proxy:
    def __init__(self, world, real):
        self._w = world
        self._real = real

    def __getattr__(self, name):
        return getattr(self._real, name)

    def imwrite(self, path, img, params=None):
        self._w.seam_write(path)
        if params is None:
            return self._real.imwrite(path, img)
        return self._real.imwrite(path, img, params)


class _TxnProxy:
    """A write transaction of the LMDB line-crop output: the commit is the write seam (an atomic one,
    as in LMDB itself); a kill before it means the transaction never happened."""

    def __init__(self, world, env_path, txn, write):
        self._w, self._path, self._txn, self._write = world, env_path, txn, write

    def __enter__(self):
        self._txn.__enter__()
        return self

    def __exit__(self, et, ev, tb):
        if et is None and self._write:
            try:
                self._w.seam_write(os.path.join(self._path, 'txn-commit'))
            except BaseException:
                self._txn.abort()
                raise
        return self._txn.__exit__(et, ev, tb)

    def __getattr__(self, name):
        return getattr(self._txn, name)


class _EnvProxy:
    def __init__(self, world, path, env):
        self._w, self._path, self._env = world, path, env

    def begin(self, *a, **k):
        write = bool(k.get('write', False))
        return _TxnProxy(self._w, self._path, self._env.begin(*a, **k), write)

    def __getattr__(self, name):
        return getattr(self._env, name)


class LmdbProxy:
    """Stands in for the ``lmdb`` module (parse_folder imports it inside LMDB_writer.__init__)."""

    def __init__(self, world, real):
        self._w, self._real = world, real

    def open(self, path, *a, **k):
        self._w.log.add(self._w.actor(), 'lmdb-open', self._w.rel(path))
        return _EnvProxy(self._w, path, self._real.open(path, *a, **k))

    def __getattr__(self, name):
        return getattr(self._real, name)


class _WrittenFile:
    """A file opened for writing: when it is closed the worker may be pre-empted (a real scheduler can switch
    between the end of a write and whatever the program does next, e.g. a rename)."""

    def __init__(self, world, f):
        self.__dict__['_w'] = world
        self.__dict__['_f'] = f

    def __getattr__(self, name):
        return getattr(self._f, name)

    def __setattr__(self, name, value):
        setattr(self._f, name, value)

    def __iter__(self):
        return iter(self._f)

    def __enter__(self):
        self._f.__enter__()
        return self

    def _after(self):
        p = self._w.proc
        if p is not None and p.scheduler is not None:
            p.scheduler.yield_point('after-write')

    def __exit__(self, *exc):
        r = self._f.__exit__(*exc)
        if exc[0] is None:
            self._after()
        return r

    def close(self):
        self._f.close()
        self._after()


def make_open(world):
    def sim_open(file, mode='r', *a, **k):
        if isinstance(file, (str, bytes, os.PathLike)) and any(c in mode for c in 'wax+'):
            world.seam_write(file)
            return _WrittenFile(world, builtins.open(file, mode, *a, **k))
        return builtins.open(file, mode, *a, **k)
    return sim_open


def MonitoredPageParser(*a, **k):
    """Factory standing in for ``parse_folder.PageParser``: the real class, with
    process_page reporting the page id to the active world."""
    return _monitored_cls()(*a, **k)


_MON = [None]


def _monitored_cls():
    if _MON[0] is None:
        from pero_ocr.document_ocr.page_parser import PageParser

        class _Monitored(PageParser):
            def process_page(self, image, page_layout):
                w = _ACTIVE[0]
                if w is not None:
                    w.on_process_page(page_layout.id)
                return super().process_page(image, page_layout)
        _Monitored.__name__ = 'PageParserMonitored'
        _Monitored.__qualname__ = 'PageParserMonitored'
        globals()['PageParserMonitored'] = _Monitored
        _MON[0] = _Monitored
    return _MON[0]


def _global_state():
    import torch
    # (no getter in torch: with flush-to-zero on, a subnormal number compares equal to zero)
    return {'flush_denormal': bool((np.array([5e-324]) == 0)[0]),
            'default_dtype': torch.get_default_dtype(), 'grad': torch.is_grad_enabled(),
            'np_err': dict(np.geterr()), 'cwd': os.getcwd()}


def _restore_global_state(before):
    """Interpreter-wide settings a simulated process changed: put them back (a new process starts with defaults)."""
    import torch
    changed = False
    now = _global_state()
    if now['flush_denormal'] != before['flush_denormal'] and before['flush_denormal'] is not None:
        torch.set_flush_denormal(before['flush_denormal'])
        changed = True
    if now['default_dtype'] != before['default_dtype']:
        torch.set_default_dtype(before['default_dtype'])
        changed = True
    if now['grad'] != before['grad']:
        torch.set_grad_enabled(before['grad'])
        changed = True
    if now['np_err'] != before['np_err']:
        np.seterr(**before['np_err'])
        changed = True
    if now['cwd'] != before['cwd']:
        os.chdir(before['cwd'])
        changed = True
    return changed


class _NoPool:
    """Stands in for the multiprocessing.Pool(1) that LayoutExtractor creates and never uses."""

    def __init__(self, *a, **k):
        pass


class SimPool:
    """Drop-in for multiprocessing.Pool as parse_folder uses it.  Chunking as CPython
    3.12 (divmod(len, 4 * processes)); every chunk gets its own unpickled copy of the
    callable (Pool pickles the function with each chunk); which worker takes the next
    chunk and how tasks interleave at write seams is decided by the plan's schedule."""

    def __init__(self, processes=None):
        self.world = _ACTIVE[0]
        if processes is not None and processes < 1:
            raise ValueError("Number of processes must be at least 1")      # as multiprocessing.Pool does
        self.processes = processes or (os.cpu_count() or 1)

    def __enter__(self):
        return self

    def __exit__(self, *exc):
        return False

    def starmap(self, func, iterable, chunksize=None):
        w = self.world
        tasks = list(iterable)
        n = len(tasks)
        if n == 0:
            return []
        if chunksize is None:
            chunksize, extra = divmod(n, self.processes * 4)
            if extra:
                chunksize += 1
        if chunksize <= 0:
            return [None] * n          # CPython: a MapResult with chunksize <= 0 is 'ready' at once, nothing runs
        blob = pickle.dumps(func)
        chunks = collections.deque((s, tasks[s:s + chunksize]) for s in range(0, n, chunksize))
        results = [None] * n
        sched = kernel.BatonScheduler(w.proc.schedule, w.log)
        w.proc.scheduler = sched
        w.res.probe('pool_runs')

        def body():
            while True:
                sched.yield_point('idle')
                if not chunks:
                    return
                start, chunk = chunks.popleft()
                f = pickle.loads(blob)
                if len(chunk) >= 2:
                    w.res.probe('pool_chunk_with_2plus_pages')
                for j, t in enumerate(chunk):
                    results[start + j] = f(*t)
                    sched.yield_point('task-done')
        for k in range(self.processes):
            sched.spawn('w%d' % k, body)
        try:
            sched.run()
        finally:
            w.proc.scheduler = None
            if sched.switches:
                w.res.fault('pool_context_switches', sched.switches)
            w.res.info.setdefault('interleavings', []).append(kernel.sha([n, self.processes, sched.trace]))
        return results


def assert_pool_model():
    """SimPool models CPython's Pool.starmap; refuse to run if this interpreter's Pool works differently."""
    import inspect
    import multiprocessing.pool as mpp
    src = inspect.getsource(mpp.Pool._map_async)
    tasks = inspect.getsource(mpp.Pool._get_tasks)
    if ('divmod(len(iterable), len(self._pool) * 4)' not in src or 'Pool._get_tasks(func, iterable, chunksize)' not in src
            or 'yield (func, x)' not in tasks):
        raise kernel.HarnessError('multiprocessing.Pool of this interpreter does not chunk / ship the callable as SimPool models it')


# ------------------------------------------------------------------ process state
class Proc:
    def __init__(self, spec):
        self.crash_at = spec.get('crash_at')
        self.listdir_seed = spec.get('listdir_seed')
        self.schedule = spec.get('schedule', [])
        self.listdir_calls = 0
        self.writes_done = 0
        self.writes = []
        self.processed = []
        self.killed = False
        self.scheduler = None
        self.exit = None
        self.stdout = ''
        self.fail = spec.get('fail')          # {'page': id, 'at_write': None | k}: transient failure of one page
        self.fail_writes = 0
        self.failed_pages = []


# -------------------------------------------------------------------- file digests
_TS = re.compile(r'<(Created|LastChange|processingDateTime)>[^<]*</\1>')


def digest_file(path):
    with open(path, 'rb') as f:
        data = f.read()
    if path.endswith('.xml'):
        data = _TS.sub(r'<\1>T</\1>', data.decode('utf-8', 'replace')).encode()
    elif path.endswith('.logits'):
        try:
            return 'L' + kernel.sha(logits_digest(pickle.loads(data)))
        except Exception as e:  # unreadable pickle: compare raw
            return 'Lraw' + hashlib.sha256(data).hexdigest()[:16] + type(e).__name__
    return hashlib.sha256(data).hexdigest()[:16]


def matrix_digest(mat):
    if mat is None:
        return None
    m = mat.tocsc(copy=True)
    m.sort_indices()
    return [list(m.shape), str(m.dtype), hashlib.sha256(m.data.tobytes()).hexdigest()[:16],
            hashlib.sha256(m.indices.astype(np.int64).tobytes()).hexdigest()[:16],
            hashlib.sha256(m.indptr.astype(np.int64).tobytes()).hexdigest()[:16]]


def logits_digest(d):
    out = {}
    for k in sorted(d, key=str):
        if k == 'line_characters':
            out[k] = {kk: (None if v is None else list(v)) for kk, v in d[k].items()}
        elif k == 'logit_coords':
            out[k] = {kk: (None if v is None else list(v)) for kk, v in d[k].items()}
        else:
            out[str(k)] = matrix_digest(d[k])
    return out


def snapshot(root):
    snap = {}
    if not os.path.isdir(root):
        return snap
    for dp, _, fs in os.walk(root):
        for f in fs:
            p = os.path.join(dp, f)
            if f == 'lock.mdb':
                continue
            if f == 'data.mdb':
                # an LMDB environment: its logical content (key -> value hash), not the page file
                import lmdb
                lmdb = lmdb.__dict__.get('_real', lmdb)       # never the simulator's proxy: reading the tree is not an event
                env = lmdb.open(dp, readonly=True, lock=False)
                try:
                    with env.begin() as txn:
                        for key, val in txn.cursor():
                            snap[os.path.join(os.path.relpath(dp, root), key.decode('utf-8', 'replace'))] = hashlib.sha256(bytes(val)).hexdigest()[:16]
                finally:
                    env.close()
                continue
            snap[os.path.relpath(p, root)] = digest_file(p)
    return snap


def id_class(pid, all_ids):
    """'ext' if the id contains an output-extension token or is a dotted prefix/extension of another id."""
    if any(t in pid for t in EXT_TOKENS):
        return 'ext'
    for o in all_ids:
        if o != pid and o.startswith(pid + '.') and any(o[len(pid):].startswith(t) for t in EXT_TOKENS):
            return 'ext'
    return 'plain'


# ------------------------------------------------------------------------- world
class PfWorld:
    def __init__(self, plan, res=None, log=None):
        self.plan = plan
        self.res = res or kernel.RunResult()
        self.log = log or kernel.EventLog()
        self.clock = kernel.SimClock(plan.get('clock', {}).get('inc', [0.001]), plan.get('clock', {}).get('jumps'), self.log)
        self.proc = None
        self.root = None
        self.tree = None
        self.step_cap = 5000
        self.steps = 0
        self._installed = None
        self._zombie = False
        self._run_outputs = None

    # -- helpers
    def rel(self, path):
        path = str(path)
        if self.root and path.startswith(self.root):
            return path[len(self.root) + 1:]
        return path

    def actor(self):
        p = self.proc
        if p is not None and p.scheduler is not None:
            me = p.scheduler.me()
            if me is not None:
                return me.name
        return 'main'

    def seam_write(self, path):
        p = self.proc
        if p is None:
            if self._zombie:
                # a thread of a simulated process that has been killed: dead processes write nothing
                raise kernel.SimCrash('write attempted by a thread of a killed process')
            return
        if p.scheduler is not None:
            p.scheduler.yield_point('write')
        self.steps += 1
        if self.steps > self.step_cap:
            raise kernel.StepCapExceeded('more than %d write seams' % self.step_cap)
        if p.fail and p.fail.get('at_write') is not None and self.owner_of(path) == p.fail['page']:
            n = p.fail_writes
            p.fail_writes += 1
            if n == p.fail['at_write']:
                # a write error (disk full) on one output of one page: the driver reports the page as failed
                # and carries on; a later run has to finish the page
                p.failed_pages.append(p.fail['page'])
                self.res.fault('disk_error_on_write')
                self.log.add(self.actor(), 'FAULT-write-error', self.rel(path))
                raise OSError(28, 'No space left on device (injected by the simulator)', str(path))
        if p.crash_at is not None and p.writes_done == p.crash_at:
            p.killed = True
            self.log.add(self.actor(), 'KILL-before-write', self.rel(path))
            self.res.fault('process_kill_at_write_seam')
            raise kernel.SimCrash('kill before write #%d (%s)' % (p.writes_done, self.rel(path)))
        p.writes_done += 1
        p.writes.append(self.rel(path))
        self.log.add(self.actor(), 'write', self.rel(path))

    def on_process_page(self, pid):
        self.proc.processed.append(pid)
        self.log.add(self.actor(), 'process_page', pid)
        f = self.proc.fail
        if f and f.get('at_write') is None and f['page'] == pid and pid not in self.proc.failed_pages:
            self.proc.failed_pages.append(pid)
            self.res.fault('transient_page_failure')
            self.log.add(self.actor(), 'FAULT-page-failure', pid)
            raise kernel.InjectedFault('transient failure while processing page %s (injected by the simulator)' % pid)

    def owner_of(self, path):
        """The page an output file belongs to (longest id such that the file name is <id>.<ext> or <id>-<line>.jpg)."""
        name = os.path.basename(str(path))
        best = None
        for pg in self.plan['pages']:
            pid = pg['id']
            if name.startswith(pid + '.') and name[len(pid):] in ('.xml', '.jpg', '.logits') or name.startswith(pid + '-'):
                if best is None or len(pid) > len(best):
                    best = pid
        return best

    # -- environment
    def install(self):
        import parse_folder as pf
        from pero_ocr.core import layout
        from pero_ocr.document_ocr import page_parser
        from pero_ocr.decoding import decoding_itf
        import cv2
        saved = {'pf': {k: pf.__dict__.get(k, None) for k in ('os', 'cv2', 'time', 'Pool', 'PageParser', 'open')},
                 'layout': {k: layout.__dict__.get(k, None) for k in ('open', 'datetime')},
                 'pp_time': page_parser.time, 'construct_lm': decoding_itf.construct_lm,
                 'argv': sys.argv}
        pf.os = OsProxy(self)
        pf.cv2 = Cv2Proxy(self, cv2)
        ft = kernel.FakeTimeModule(self.clock)
        pf.time = ft
        pf.Pool = SimPool
        pf.PageParser = MonitoredPageParser
        pf.open = make_open(self)
        if self.plan.get('lmdb'):
            import lmdb as real_lmdb
            saved['lmdb'] = sys.modules.get('lmdb')
            sys.modules['lmdb'] = LmdbProxy(self, real_lmdb)
        layout.open = make_open(self)
        layout.datetime = kernel.make_fake_datetime(self.clock)
        page_parser.time = ft
        decoding_itf.construct_lm = toylm.construct_lm
        saved['pp_pool'] = page_parser.__dict__.get('Pool')
        page_parser.Pool = _NoPool       # LayoutExtractor.__init__ creates a Pool(1) that nothing uses
        self._installed = (pf, layout, page_parser, decoding_itf, saved)
        _ACTIVE[0] = self

    def uninstall(self):
        if not self._installed:
            return
        pf, layout, page_parser, decoding_itf, saved = self._installed
        for k, v in saved['pf'].items():
            if v is None:
                pf.__dict__.pop(k, None)
            else:
                setattr(pf, k, v)
        for k, v in saved['layout'].items():
            if v is None:
                layout.__dict__.pop(k, None)
            else:
                setattr(layout, k, v)
        page_parser.time = saved['pp_time']
        if saved.get('pp_pool') is not None:
            page_parser.Pool = saved['pp_pool']
        decoding_itf.construct_lm = saved['construct_lm']
        if 'lmdb' in saved:
            sys.modules['lmdb'] = saved['lmdb']
        sys.argv = saved['argv']
        _ACTIVE[0] = None
        self._installed = None

    # -- inputs
    def setup_inputs(self):
        import cv2
        plan = self.plan
        cfg = plan['cfg']
        self.root = scratch_dir('pf')
        self.chars = content.charset(cfg['nchars'], cfg.get('space', False), cfg.get('charset', 'ascii'))
        cdir = os.path.join(self.root, 'cfg')
        os.makedirs(cdir)
        mode = plan['mode']
        extra = {}
        pp = {'RUN_LINE_CROPPER': 'no', 'RUN_OCR': 'no'}
        if mode in ('ocr', 'crop') or (mode == 'decode' and plan.get('with_images') and 'lines' in plan['outputs']):
            pp['RUN_LINE_CROPPER'] = 'yes'
            extra['LINE_CROPPER'] = {'INTERP': str(cfg.get('interp', 2)), 'LINE_SCALE': '1', 'LINE_HEIGHT': str(stubocr.LINE_HEIGHT)}
        if mode == 'ocr':
            pp['RUN_OCR'] = 'yes'
        if mode in ('ocr', 'crop') and cfg.get('postprocess'):
            # a layout-parser stage that only post-processes the lines given in the input PAGE XML
            pp['RUN_LAYOUT_PARSER'] = 'yes'
            extra['LAYOUT_PARSER_1'] = {'METHOD': 'LINE_POSTPROCESSING', 'STRETCH_LINES': str(cfg['postprocess'].get('stretch', 4)),
                                        'RESAMPLE_LINES': 'yes' if cfg['postprocess'].get('resample') else 'no',
                                        'HEIGHTS_FROM_REGIONS': 'no'}
        if mode == 'cnn':
            # the CNN layout stage with a stub ParseNet (sim.cnnstub), then cropper and OCR
            from . import cnnstub
            pp['RUN_LAYOUT_PARSER'] = 'yes'
            pp['RUN_LINE_CROPPER'] = 'yes'
            pp['RUN_OCR'] = 'yes'
            extra['LAYOUT_PARSER_1'] = {
                'METHOD': 'LAYOUT_CNN', 'MODEL_PATH': cnnstub.ensure_parsenet(cdir), 'DETECT_REGIONS': 'yes', 'DETECT_LINES': 'yes',
                'DETECT_STRAIGHT_LINES_IN_REGIONS': 'no',
                'MERGE_LINES': 'yes' if cfg.get('cnn_merge') else 'no', 'ADJUST_HEIGHTS': 'yes' if cfg.get('cnn_heights') else 'no',
                'MULTI_ORIENTATION': 'no', 'ADJUST_BASELINES': 'yes' if cfg.get('cnn_baselines') else 'no', 'USE_CPU': 'yes', 'DOWNSAMPLE': str(cfg.get('cnn_downsample', 4)),
                'ADAPTIVE_DOWNSAMPLE': 'yes' if cfg.get('cnn_adaptive', True) else 'no', 'DETECTION_THRESHOLD': '0.2', 'MAX_MEGAPIXELS': '5'}
            extra['LINE_CROPPER'] = {'INTERP': '2', 'LINE_SCALE': '1', 'LINE_HEIGHT': str(stubocr.LINE_HEIGHT)}
        if mode == 'layout':
            pp['RUN_LAYOUT_PARSER'] = 'yes'
            pp['RUN_LINE_CROPPER'] = 'yes' if ('lines' in plan['outputs'] or plan.get('layout_ocr')) else 'no'
            if plan.get('layout_ocr'):
                pp['RUN_OCR'] = 'yes'        # detected lines are cropped and read, so that geometry shows up as text
            if not plan.get('regions_from_xml'):
                extra['LAYOUT_PARSER_1'] = {'METHOD': 'REGION_WHOLE_PAGE'}
            extra['LAYOUT_PARSER_2'] = {'METHOD': 'LINES_SIMPLE_THRESHOLD', 'ADAPTIVE_THRESHOLD': '21', 'BLOCK_SIZE': '51',
                                        'MINIMUM_LENGTH': '10', 'IGNORED_BORDER_PIXELS': '4'}
            extra['LINE_CROPPER'] = {'INTERP': str(cfg.get('interp', 2)), 'LINE_SCALE': '1', 'LINE_HEIGHT': str(stubocr.LINE_HEIGHT)}
        extra['PAGE_PARSER'] = pp
        run_decoder = bool(cfg.get('decoder')) and mode in ('ocr', 'decode')
        dcfg = dict(cfg.get('decoder') or {})
        dcfg.setdefault('nchars', cfg['nchars'])
        dcfg['space'] = cfg.get('space', False)
        dcfg['nchars'] = cfg['nchars']
        dcfg['charset'] = cfg.get('charset', 'ascii')
        if not run_decoder:
            dcfg.setdefault('type', 'GREEDY')
        self.ini = write_decoder_config(cdir, dcfg, run_decoder=run_decoder, extra_sections=extra)
        if mode in ('ocr', 'cnn') or plan.get('layout_ocr'):
            os.remove(os.path.join(cdir, 'ocr.json'))
            stubocr.ensure_engine_files(cdir, self.chars, scale=float(cfg.get('ocr_scale', 8.0)))
        self.in_img = self.in_xml = self.in_logits = None
        ids = [p['id'] for p in plan['pages']]
        if mode in ('ocr', 'crop', 'layout', 'cnn') or plan.get('with_images'):
            self.in_img = os.path.join(self.root, 'in_img')
            os.makedirs(self.in_img)
            for p in plan['pages']:
                if mode == 'cnn':
                    from . import cnnstub
                    img = cnnstub.paint_cnn_page(dict(self.img_spec(p), ink_height=p.get('ink_height', 24), same_left_edge=p.get('same_left_edge', False)), cfg['nchars'])
                else:
                    img = stubocr.paint_text_page(self.img_spec(p)) if mode == 'layout' else stubocr.paint_page(self.img_spec(p), cfg['nchars'])
                cv2.imwrite(os.path.join(self.in_img, p['id'] + p.get('ext', '.png')), img)
                if p.get('sidecar'):
                    # a ground-truth note next to the scan: the driver takes every non-xml/logits file for an
                    # image, fails on it, reports it and carries on
                    with open(os.path.join(self.in_img, p['id'] + '.txt'), 'w') as f:
                        f.write('not an image\n')
            if plan.get('input_subfolder'):
                os.makedirs(os.path.join(self.in_img, 'rejected'))
                cv2.imwrite(os.path.join(self.in_img, 'rejected', 'zz-sub.png'), np.zeros((40, 60, 3), dtype=np.uint8))
        if mode in ('ocr', 'crop'):
            self.in_xml = os.path.join(self.root, 'in_xml')
            os.makedirs(self.in_xml)
            for p in plan['pages']:
                if p.get('no_xml'):
                    continue            # with --skipp-missing-xml such a page is not an input page
                with open(os.path.join(self.in_xml, p['id'] + '.xml'), 'w') as f:
                    f.write(stubocr.page_xml(self.img_spec(p), p['id'], style=p.get('xml_style', 'pero')))
        if mode == 'layout' and plan.get('regions_from_xml'):
            # regions come from input PAGE XML (arbitrary polygons); the simple line detector fills them
            self.in_xml = os.path.join(self.root, 'in_xml')
            os.makedirs(self.in_xml)
            for p in plan['pages']:
                spec = dict(self.img_spec(p), region_poly=p.get('region_poly', 'rect'))
                img = stubocr.paint_text_page(spec)
                with open(os.path.join(self.in_xml, p['id'] + '.xml'), 'w') as f:
                    f.write(stubocr.page_xml(spec, p['id'], regions_only=True, size=img.shape[:2]))
        if mode == 'decode':
            self.in_xml = os.path.join(self.root, 'in_xml')
            self.in_logits = os.path.join(self.root, 'in_logits')
            os.makedirs(self.in_xml)
            os.makedirs(self.in_logits)
            for p in plan['pages']:
                lay = self.logit_layout(p)
                lay.to_pagexml(os.path.join(self.in_xml, p['id'] + '.xml'))
                lay.save_logits(os.path.join(self.in_logits, p['id'] + '.logits'))
        self.ids = ids

    def hide_inputs(self, ids):
        """Takes the input files of some pages away (they arrive later: scanned after the first run started)."""
        hold = os.path.join(self.root, 'late_inputs')
        for src in (self.in_img, self.in_xml, self.in_logits):
            if not src:
                continue
            for f in sorted(os.listdir(src)):
                if os.path.splitext(f)[0] in ids:
                    os.makedirs(os.path.join(hold, os.path.basename(src)), exist_ok=True)
                    os.replace(os.path.join(src, f), os.path.join(hold, os.path.basename(src), f))

    def restore_inputs(self):
        hold = os.path.join(self.root, 'late_inputs')
        for src in (self.in_img, self.in_xml, self.in_logits):
            d = os.path.join(hold, os.path.basename(src)) if src else None
            if d and os.path.isdir(d):
                for f in sorted(os.listdir(d)):
                    os.replace(os.path.join(d, f), os.path.join(src, f))

    def img_spec(self, p):
        return {'lines': [dict({'blocks': ln.get('blocks', ln.get('frames', 4)), 'seed': ln['seed'], 'amb': ln.get('amb', 0.3),
                                'id': ln.get('id', 'l%03d' % j), 'descenders': ln.get('descenders', False)},
                               **({'hsplit': ln['hsplit']} if ln.get('hsplit') else {}))
                          for j, ln in enumerate(p['lines'])],
                'regions': p.get('regions', 1), 'curved': p.get('curved', False), 'canvas': p.get('canvas'),
                'tilt': p.get('tilt', 0), 'ink_colours': self.plan['cfg']['nchars'] if self.plan.get('layout_ocr') else 0}

    def logit_layout(self, p):
        """Layout with generated logits whose line geometry matches the painted image."""
        spec = {'id': p['id'], 'regions': p.get('regions', 1),
                'lines': [{'frames': ln.get('frames', ln.get('blocks', 4)), 'seed': ln['seed'], 'amb': ln.get('amb', 0.4),
                           'id': ln.get('id', 'l%03d' % j), 'coords': ln.get('coords', 'std'),
                           'range': ln.get('range', 'std'), 'dtype': ln.get('dtype')} for j, ln in enumerate(p['lines'])]}
        lay = content.build_layout(spec, self.chars)
        h, w, geo = stubocr.page_geometry(self.img_spec(p))
        lay.page_size = (h, w)
        for r in lay.regions:
            r.polygon = np.asarray([[0, 0], [w, 0], [w, h], [0, h]])
        for line, g in zip([ln for ln in self._lines_in_spec_order(lay, spec)], geo):
            y, x0, x1 = g['y'], g['x0'], g['x1']
            line.baseline = np.asarray([[x0, y], [x1, y]])
            line.polygon = np.asarray([[x0, y - 12], [x1, y - 12], [x1, y + 4], [x0, y + 4]])
            line.heights = [12.0, 4.0]
        return lay

    @staticmethod
    def _lines_in_spec_order(lay, spec):
        by_id = {ln.id: ln for ln in lay.lines_iterator()}
        return [by_id[ls['id']] for ls in spec['lines']]

    def dirname(self, kind):
        """Output folder of a kind relative to the run's output root (plans may nest or share folders)."""
        if kind == 'lines' and self.plan.get('lmdb'):
            return 'lines_lmdb'          # parse_folder switches to the LMDB writer when the path contains 'lmdb'
        return (self.plan.get('folders') or {}).get(kind, kind)

    def expected_files(self):
        """Per page: the output files a complete page has, by requested kind."""
        exp = {}
        for p in self.plan['pages']:
            if p.get('no_xml'):
                continue
            fs = {}
            for kind in self.plan['outputs']:
                if kind == 'xml':
                    fs[kind] = ['%s/%s.xml' % (self.dirname('xml'), p['id'])]
                elif kind == 'render':
                    fs[kind] = ['%s/%s.jpg' % (self.dirname('render'), p['id'])]
                elif kind == 'logits':
                    fs[kind] = ['%s/%s.logits' % (self.dirname('logits'), p['id'])]
                elif kind == 'alto':
                    fs[kind] = ['%s/%s.xml' % (self.dirname('alto'), p['id'])]
                elif kind == 'lines':
                    fs[kind] = ['%s/%s-%s.jpg' % (self.dirname('lines'), p['id'], ln.get('id', 'l%03d' % j)) for j, ln in enumerate(p['lines'])]
            exp[p['id']] = fs
        return exp

    def argv(self, out, procs=1, skip=True, ov=None):
        ov = ov or {}
        in_cfg = [] if 'outputs' in ov else list(self.plan.get('paths_in_config') or [])
        a = ['parse_folder.py', '-c', self.ini_for(out, in_cfg) if in_cfg else ov.get('ini', self.ini), '--device', 'cpu']
        if skip:
            a.append('-s')
        in_img, in_xml, in_logits = (ov.get('in_img', self.in_img), ov.get('in_xml', self.in_xml),
                                     ov.get('in_logits', self.in_logits))
        if in_img:
            a += ['-i', in_img]
        if in_xml:
            a += ['-x', in_xml]
        if in_logits:
            a += ['--input-logit-path', in_logits]
        flag = {'xml': '--output-xml-path', 'render': '--output-render-path', 'logits': '--output-logit-path',
                'alto': '--output-alto-path', 'lines': '--output-line-path'}
        requested = ov.get('outputs', getattr(self, '_run_outputs', None) or self.plan['outputs'])
        for kind in KINDS:
            if kind in requested and kind not in in_cfg:
                a += [flag[kind], os.path.join(out, self.dirname(kind))]
        if self.plan.get('transcriptions_file') and 'outputs' not in ov:
            a += ['--output-transcriptions-file-path', os.path.join(out, 'transcriptions.txt')]
        if procs > 1:
            a += ['--process-count', str(procs)]
        if any(p.get('no_xml') for p in self.plan['pages']):
            a.append('--skipp-missing-xml')
        return a

    def ini_for(self, out, kinds):
        """A copy of the configuration whose [PARSE_FOLDER] section names some output folders
        (instead of the command line): the other way users tell parse_folder where to write."""
        import configparser
        path = os.path.join(os.path.dirname(self.ini), 'config-%s.ini' % os.path.basename(out))
        if not os.path.exists(path):
            ini = configparser.ConfigParser()
            ini.optionxform = str
            ini.read(self.ini)
            key = {'xml': 'OUTPUT_XML_PATH', 'render': 'OUTPUT_RENDER_PATH', 'logits': 'OUTPUT_LOGIT_PATH',
                   'alto': 'OUTPUT_ALTO_PATH', 'lines': 'OUTPUT_LINE_PATH'}
            ini['PARSE_FOLDER'] = {key[k]: os.path.join(out, self.dirname(k)) for k in kinds if k in self.plan['outputs']}
            with open(path, 'w') as f:
                ini.write(f)
        return path

    # -- one simulated process
    def simulate_process(self, out, spec, extra_argv=None, ov=None):
        import parse_folder as pf
        import numpy.random
        import random as _random
        p = Proc(spec)
        self.proc = p
        self.res.sim_processes += 1
        self.log.add('sim', 'process-start', [os.path.basename(out), spec.get('crash_at'), spec.get('procs', 1)])
        if spec.get('outputs') is not None and ov is None:
            self._run_outputs = list(spec['outputs'])      # this run asks for fewer output kinds than the final request
        sys.argv = self.argv(out, procs=spec.get('procs', 1), ov=ov) + (extra_argv or [])
        self._run_outputs = None
        _random.seed(spec.get('rng_seed', 0))
        numpy.random.seed(spec.get('rng_seed', 0) % (2 ** 31))
        so, se = io.StringIO(), io.StringIO()
        gstate = _global_state()
        import threading
        threads_before = set(threading.enumerate())
        restore_ocr = None
        if spec.get('ocr_oom_at') is not None:
            # transient allocation failure inside the OCR network call (what a full GPU does)
            from pero_ocr.ocr_engine.pytorch_ocr_engine import PytorchEngineLineOCR
            orig_run, calls, world = PytorchEngineLineOCR.run_ocr, [0], self

            def faulty_run_ocr(engine, batch_data):
                n = calls[0]
                calls[0] += 1
                if n == spec['ocr_oom_at']:
                    world.res.fault('ocr_out_of_memory')
                    world.log.add(world.actor(), 'FAULT-ocr-oom', n)
                    raise RuntimeError('CUDA out of memory. Tried to allocate (injected by the simulator)')
                return orig_run(engine, batch_data)
            PytorchEngineLineOCR.run_ocr = faulty_run_ocr
            restore_ocr = (PytorchEngineLineOCR, orig_run)
        try:
            with contextlib.redirect_stdout(so), contextlib.redirect_stderr(se):
                pf.main()
            p.exit = 'ok'
        except kernel.SimCrash:
            p.exit = 'killed'
        except SystemExit as e:
            p.exit = 'ok' if e.code in (None, 0) else 'sysexit:%s' % e.code
        except kernel.StepCapExceeded:
            p.exit = 'stepcap'
        except Exception as e:  # an unkilled process ending in a traceback
            p.exit = 'exc:%s' % type(e).__name__
            p.exc_text = '%s: %s' % (type(e).__name__, e)
        finally:
            extra = [t for t in threading.enumerate() if t not in threads_before and t is not threading.current_thread()]
            if extra:
                # the code under test started threads of its own.  A killed process takes them with it (they may
                # not write any more); an exiting interpreter waits for them (their queued writes still happen).
                self.res.fault('threads_started_by_code_under_test', len(extra))
                if p.exit == 'killed' or p.killed:
                    self.proc = None
                    self._zombie = True
                for t in extra:
                    t.join(timeout=2.0)
                self._zombie = False
            self.proc = None
            if restore_ocr is not None:
                restore_ocr[0].run_ocr = restore_ocr[1]
            if _restore_global_state(gstate):
                # a real process takes such interpreter-wide settings with it when it ends
                self.res.fault('process_global_state_reset_after_process')
        p.stdout = so.getvalue()
        p.stderr = se.getvalue()
        if self.plan.get('lmdb'):
            import gc
            gc.collect()         # environments of a dead process must not stay open in this interpreter
        if p.crash_at is not None and not p.killed:
            # the kill was scheduled after the last write of this process: everything it wrote is
            # durable, its exit status died with it
            p.killed_at_exit = True
            self.res.fault('process_kill_after_last_write')
        else:
            p.killed_at_exit = False
        self.log.add('sim', 'process-end', [p.exit, p.writes_done, len(p.processed)])
        return p

    def cleanup(self):
        if self.root:
            shutil.rmtree(self.root, ignore_errors=True)
            self.root = None
