"""A tiny seeded LSTM language model with the interface brnolm models offer to
``pero_ocr.decoding.lm_wrapper.LMWrapper``.  It is a *stub for the trained LM
only*: LMWrapper, HiddenState and the decoders that drive it are the real code.

The state is a tuple (h, c) of shape (layers, batch, hidden) - the shape
``LMWrapper.add_line_end`` requires - and is a genuine contraction of the whole
symbol history, so anything that leaks context into a later line or page
changes its predictions.
"""
import json

import torch

UNUSED_PREFIX = 2  # vocab: 0 '</s>', 1 '<unk>', then decoder symbol i at i + 2


class ToyModel(torch.nn.Module):
    def __init__(self, vocab_size, hidden, seed, gain):
        super().__init__()
        g = torch.Generator().manual_seed(int(seed))
        self.emb = torch.nn.Embedding(vocab_size, hidden)
        self.lstm = torch.nn.LSTM(hidden, hidden, num_layers=1, batch_first=True)
        with torch.no_grad():
            for p in self.parameters():
                p.copy_(torch.randn(p.shape, generator=g) * gain)
        self.hidden = hidden

    def forward(self, x, h):
        out, h_new = self.lstm(self.emb(x), h)
        return out, h_new

    def init_hidden(self, bsz):
        z = torch.zeros((1, bsz, self.hidden))
        return (z, z.clone())


class ToyDecoder(torch.nn.Module):
    def __init__(self, vocab_size, hidden, seed, sharpness):
        super().__init__()
        g = torch.Generator().manual_seed(int(seed) + 1)
        self.lin = torch.nn.Linear(hidden, vocab_size)
        with torch.no_grad():
            self.lin.weight.copy_(torch.randn(self.lin.weight.shape, generator=g) * sharpness)
            self.lin.bias.copy_(torch.randn(self.lin.bias.shape, generator=g) * 0.5)

    def forward(self, hs):
        return torch.log_softmax(self.lin(hs), dim=-1)


class ToyLM(torch.nn.Module):
    def __init__(self, chars, hidden=6, seed=0, gain=0.9, sharpness=3.0):
        super().__init__()
        self.vocab = {'</s>': 0, '<unk>': 1}
        for i, c in enumerate(chars):
            self.vocab[c] = i + UNUSED_PREFIX
        v = len(self.vocab)
        self.model = ToyModel(v, hidden, seed, gain)
        self.decoder = ToyDecoder(v, hidden, seed, sharpness)
        self._unused_prefix_len = UNUSED_PREFIX
        for p in self.parameters():
            p.requires_grad_(False)


def write_spec(path, chars, hidden, seed, gain=0.9, sharpness=3.0):
    with open(path, 'w') as f:
        json.dump({'toy_lm': True, 'chars': list(chars), 'hidden': hidden, 'seed': seed,
                   'gain': gain, 'sharpness': sharpness}, f)


def construct_lm(path, config_path=''):
    """Drop-in for ``decoding_itf.construct_lm``: the 'model file' is a JSON spec."""
    from pero_ocr.utils import compose_path
    with open(compose_path(path, config_path)) as f:
        spec = json.load(f)
    lm = ToyLM(spec['chars'], spec['hidden'], spec['seed'], spec['gain'], spec['sharpness'])
    lm._unused_prefix_len = UNUSED_PREFIX
    return lm
