"""logworld (C09 layer A): logits + PAGE XML as durable artefacts handed from a
producing process to a later consuming process, at object level.

A plan is an operation sequence over a tiny storage model: ``save`` (producer
writes PAGE XML + logits, file or bytes transport), ``corrupt`` (the simulator
damages the stored artefact the way real deployments do: entries lost, foreign
entries, legacy file without character tables / frame windows), ``restart``
(all Python objects dropped, only the store survives), ``load`` (a consumer
rebuilds the layout from the stored PAGE XML and loads the logits), then the
long-lived consumer decoder re-decodes and re-exports ALTO.

Real code: PageLayout.to_pagexml[_string] / from_pagexml[_string], _gen_logits,
save_logits, save_logits_bytes, load_logits, TextLine.get_dense_logits /
get_full_logprobs, to_altoxml_string, PageParser + PageDecoder + decoders + LMWrapper.
Stub: language model (sim.toylm); logits are generated (sim.content).
"""
import copy
import os
import pickle
import shutil

import numpy as np

from . import content, kernel
from .decworld import (gen_decoder_cfg, gen_page, new_parser, patch_modules, quiet, scratch_dir,
                       write_decoder_config)
from .pfworld import matrix_digest

FLOOR = -80


def alto_text(layout):
    """Sequence of String/@CONTENT per ALTO TextLine, in document order."""
    import lxml.etree as ET
    s = layout.to_altoxml_string()
    root = ET.fromstring(s.encode('utf-8'))
    out = []
    for tl in root.iter('{*}TextLine'):
        out.append([st.get('CONTENT') for st in tl.iter('{*}String')])
    return out


def gen_plan(seed, tier, index):
    r = kernel.rng(seed, 'C09', tier, index, 'plan')
    cfg = gen_decoder_cfg(r, allow_filter=False)
    cfg['space'] = r.random() < 0.5
    cfg['charset'] = 'unicode' if r.random() < 0.25 else 'ascii'
    npages = r.randint(1, 3)
    pages = [gen_page(r, 'pg%d' % k) for k in range(npages)]
    for p in pages:
        if r.random() < 0.1:
            p['dup_line'] = True
        if r.random() < 0.15 and len(p['lines']) >= 2:
            # explicit index attributes that disagree with the order of the lines in the layout
            for j, ln in enumerate(p['lines']):
                ln['index'] = len(p['lines']) - j
        for ln in p['lines']:
            if r.random() < 0.08:
                ln['dtype'] = 'float64'
            if r.random() < 0.1:
                ln['container'] = r.choice(['csc_array', 'csr_matrix'])
            ln['frames'] = r.randint(1, 40) if r.random() < 0.2 else ln['frames']
            x = r.random()
            if x < 0.03:
                ln['range'] = 'huge'
            elif x < 0.1:
                ln['range'] = 'extreme'
            elif x < 0.2:
                ln['range'] = 'logprob'
            if r.random() < 0.12:
                ln['chars_variant'] = r.choice([True, 'samejoin'])
    if r.random() < 0.012:
        # a realistically large line: hundreds of symbols, hundreds of frames, weakly pruned (> 65535 stored entries)
        cfg.update({'nchars': 300, 'charset': 'big', 'space': False, 'lm': False, 'carry': False, 'type': 'GREEDY'})
        pages = [{'id': 'pg0', 'regions': 1, 'lines': [{'frames': 260, 'seed': r.randrange(1 << 30), 'amb': 0.3, 'coords': 'std', 'range': 'flat'},
                                                      {'frames': 3, 'seed': r.randrange(1 << 30), 'amb': 0.3, 'coords': 'std'}]}]
        npages = 1
    ops = []
    saved = []
    fault_free = r.random() < 0.4
    for _ in range(r.randint(2, 9)):
        x = r.random()
        if not saved or x < 0.3:
            pg = r.randrange(npages)
            op = {'op': 'save', 'page': pg, 'via': r.choice(['file', 'file', 'bytes']), 'with_conf': r.random() < 0.5}
            if not fault_free and r.random() < 0.15:
                op['strip'] = {'line': r.randint(0, 3), 'what': r.choice(['logits', 'characters', 'logit_coords'])}
            else:
                saved.append(pg)
            ops.append(op)
        elif x < 0.42 and not fault_free:
            ops.append({'op': 'corrupt', 'page': r.choice(saved),
                        'kind': r.choice(['drop', 'drop', 'foreign', 'legacy_nochars', 'legacy_nocoords', 'legacy_both']),
                        'sel': r.randrange(1 << 16)})
        elif x < 0.55:
            ops.append({'op': 'restart'})
        else:
            ops.append({'op': 'load', 'page': r.choice(saved),
                        'into': r.choice(['xml', 'xml', 'xml', 'xml+extra', 'other_page', 'fresh_copy', 'redensified']),
                        'other': r.randrange(npages), 'decode': r.random() < 0.85 and cfg.get('charset') != 'big',
                        'scribble': r.random() < 0.3})
    return {'world': 'log', 'cfg': cfg, 'pages': pages, 'ops': ops, 'fault_free': fault_free,
            'clock': {'inc': [0.001], 'jumps': {}}}


def line_model(line):
    return {'m': matrix_digest(line.logits), 'chars': None if line.characters is None else list(line.characters),
            'coords': None if line.logit_coords is None else list(line.logit_coords)}


def _v(res, kind, sig, msg, k):
    res.violations.append(kernel.Violation('C09', kind, sig, 'op %d: %s' % (k, msg), {'op_index': k}))


def check_dense(res, line, k):
    sp = line.logits.tocoo()
    stored = np.zeros(line.logits.shape, dtype=bool)
    stored[sp.row, sp.col] = True
    dense = line.get_dense_logits()
    raw = line.logits.toarray()
    if dense.shape != tuple(line.logits.shape):
        _v(res, 'dense', 'dense-shape', 'line %s dense shape %s != %s' % (line.id, dense.shape, line.logits.shape), k)
        return False
    if stored.any() and not np.array_equal(dense[stored], raw[stored]):
        _v(res, 'dense', 'dense-stored-value-changed', 'line %s: a stored logit is not returned unchanged' % line.id, k)
        return False
    if (~stored).any() and not np.all(dense[~stored] == FLOOR):
        _v(res, 'dense', 'dense-floor', 'line %s: a pruned cell is %s, not the floor %d' % (line.id, set(dense[~stored].tolist()), FLOOR), k)
        return False
    if dense.shape[0] > 0:
        lp = line.get_full_logprobs()
        sums = np.exp(lp.astype(np.float64)).sum(axis=1)
        # float32 arithmetic: a log-probability carries an absolute rounding error of about eps32 * |logit|
        magnitude = float(np.abs(raw[stored]).max()) if stored.any() else 0.0
        tol = 1e-5 + 4 * 1.2e-7 * max(magnitude, abs(FLOOR) if (~stored).any() and not stored.any() else magnitude)
        if not np.all(np.isfinite(lp)) or np.abs(sums - 1).max() > tol:
            _v(res, 'dense', 'logprobs-not-normalised', 'line %s: rows sum to %s' % (line.id, sums[:3]), k)
            return False
        d64 = dense.astype(np.float64)
        ref = d64 - np.log(np.exp(d64 - d64.max(axis=1, keepdims=True)).sum(axis=1, keepdims=True)) - d64.max(axis=1, keepdims=True)
        if np.abs(ref - lp).max() > 1e-4 + 8 * 1.2e-7 * magnitude:
            _v(res, 'dense', 'logprobs-not-log-softmax', 'line %s: log-probabilities differ from log-softmax of the dense logits' % line.id, k)
            return False
        if stored.any() and (~stored).any():
            res.probe('line_with_stored_and_pruned_cells')
    return True


def execute(plan):
    from pero_ocr.core.layout import PageLayout, TextLine
    from scipy import sparse
    res = kernel.RunResult()
    log = kernel.EventLog()
    clock = kernel.SimClock(plan['clock']['inc'], plan['clock']['jumps'], log)
    cfg = plan['cfg']
    chars = content.charset(cfg['nchars'], cfg.get('space', False), cfg.get('charset', 'ascii'))
    d = scratch_dir('log')
    try:
        with quiet():
            patch_modules(clock)
            ini = write_decoder_config(d, cfg)
            store_xml, store_logits, model, originals = {}, {}, {}, {}
            legacy = set()
            consumer = None
            shape = []
            for k, op in enumerate(plan['ops']):
                if op['op'] == 'restart':
                    consumer = None
                    res.sim_processes += 1
                    log.add('sim', 'restart')
                    shape.append('R')
                    continue
                pg = op['page']
                spec = plan['pages'][pg]
                if op['op'] == 'save':
                    layout = content.build_layout(spec, chars)
                    if op.get('with_conf'):
                        try:                      # as the producer's PageParser leaves it: confidences set from the logits
                            new_parser(ini).update_confidences(layout)
                            res.probe('saved_layout_carries_confidences')
                        except Exception:
                            pass
                    strip = op.get('strip')
                    lines = list(layout.lines_iterator())
                    if strip and lines:
                        setattr(lines[strip['line'] % len(lines)], strip['what'], None)
                        res.fault('component_stripped_before_save')
                    else:
                        strip = None
                    path = os.path.join(d, 'pg%d.logits' % pg)
                    before = open(path, 'rb').read() if os.path.exists(path) else None
                    try:
                        if op['via'] == 'file':
                            layout.save_logits(path)
                            blob = ('file', path)
                        else:
                            blob = ('bytes', layout.save_logits_bytes())
                        raised = None
                    except Exception as e:
                        raised = e
                    log.add('producer', 'save', [spec['id'], op['via'], bool(strip), type(raised).__name__ if raised else None])
                    if strip:
                        after = open(path, 'rb').read() if os.path.exists(path) else None
                        if raised is None or after != before:
                            _v(res, 'save', 'missing-component-saved-silently|%s' % strip['what'],
                               'a line without %s was saved without an error (raised=%s, file changed=%s)' % (strip['what'], raised, after != before), k)
                            break
                        res.probe('missing_component_reported')
                        shape.append('s')
                        continue
                    if raised is not None:
                        _v(res, 'save', 'save-raised|%s' % type(raised).__name__, 'saving a complete page raised %r' % raised, k)
                        break
                    store_logits[pg] = blob
                    store_xml[pg] = layout.to_pagexml_string()
                    model[pg] = {ln.id: line_model(ln) for ln in lines}
                    legacy.discard(pg)
                    originals[pg] = copy.deepcopy(layout)
                    for ln in originals[pg].lines_iterator():
                        ln.transcription_confidence = None     # the original as the one-process flow decodes it
                    shape.append('S')
                    continue
                if op['op'] == 'corrupt':
                    if pg not in store_logits:
                        continue
                    kind, blob = store_logits[pg]
                    dct = pickle.loads(open(blob, 'rb').read() if kind == 'file' else blob)
                    ids = sorted(model[pg])
                    rr = kernel.rng(op['sel'], 'corrupt')
                    if op['kind'] == 'drop' and ids:
                        lost = [i for i in ids if rr.random() < 0.5] or [ids[0]]
                        for i in lost:
                            dct.pop(i, None)
                            dct.get('line_characters', {}).pop(i, None)
                            dct.get('logit_coords', {}).pop(i, None)
                            model[pg][i] = 'lost'
                        res.fault('stored_entries_lost', len(lost))
                    elif op['kind'] == 'foreign':
                        m = sparse.csc_matrix(np.full((2, len(chars) + 1), 3.25, dtype=np.float32))
                        for i in ('zz-foreign-1', 'zz-foreign-2'):
                            dct[i] = m
                            if 'line_characters' in dct:     # keep the artefact self-consistent (legacy files have no tables)
                                dct['line_characters'][i] = ['?']
                            if 'logit_coords' in dct:
                                dct['logit_coords'][i] = [0, 1]
                        res.fault('foreign_entries_added')
                    elif op['kind'].startswith('legacy'):
                        if op['kind'] in ('legacy_nochars', 'legacy_both'):
                            dct.pop('line_characters', None)
                            for i in ids:
                                if model[pg][i] != 'lost':
                                    model[pg][i]['chars'] = None
                        if op['kind'] in ('legacy_nocoords', 'legacy_both'):
                            dct.pop('logit_coords', None)
                            for i in ids:
                                if model[pg][i] != 'lost':
                                    model[pg][i]['coords'] = [None, None]
                        res.fault('legacy_file_format')
                        legacy.add(pg)
                    data = pickle.dumps(dct, protocol=4)
                    if kind == 'file':
                        with open(blob, 'wb') as f:
                            f.write(data)
                    else:
                        store_logits[pg] = ('bytes', data)
                    log.add('sim', 'corrupt', [spec['id'], op['kind']])
                    shape.append('C')
                    continue
                # ---- load
                if pg not in store_logits:
                    continue
                into = op['into']
                untouched = {}
                if into in ('xml', 'xml+extra'):
                    target = PageLayout()
                    target.from_pagexml_string(store_xml[pg])
                elif into == 'redensified':
                    # a layout with the same line ids that already carries OTHER logits and has already been
                    # decoded, confidence-scored and ALTO-exported (i.e. densified) before the load
                    alt = copy.deepcopy(spec)
                    for ln in alt['lines']:
                        ln['seed'] = ln['seed'] + 1
                        ln.pop('range', None)
                    target = content.build_layout(alt, chars)
                    try:
                        new_parser(ini).process_page(None, target)
                        alto_text(target)
                    except Exception:
                        pass
                    # the text a consumer starts from is the text of the saved PAGE XML (a line that cannot
                    # be decoded keeps it), not whatever the earlier decoding of the other logits produced
                    saved_text = {ln.id: ln.transcription for ln in originals[pg].lines_iterator()}
                    for ln in target.lines_iterator():
                        ln.transcription = saved_text.get(ln.id, ln.transcription)
                        ln.transcription_confidence = None
                    res.probe('load_over_already_densified_layout')
                elif into == 'fresh_copy':
                    target = content.build_layout(spec, chars)
                    for ln in target.lines_iterator():
                        ln.logits = ln.characters = ln.logit_coords = None
                else:
                    target = content.build_layout(plan['pages'][op['other'] % len(plan['pages'])], chars)
                if into == 'xml+extra' and target.regions:
                    extra = TextLine(id='extra-not-in-file', baseline=np.asarray([[1, 5], [9, 5]]),
                                     polygon=np.asarray([[1, 1], [9, 1], [9, 7], [1, 7]]), heights=[4.0, 2.0],
                                     transcription='ab', logits=sparse.csc_matrix(np.full((3, len(chars) + 1), 1.5, dtype=np.float32)),
                                     characters=['sentinel'], logit_coords=[7, 9])
                    target.regions[-1].lines.append(extra)
                pre = {}
                for ln in target.lines_iterator():
                    pre[id(ln)] = (ln.logits, ln.characters, ln.logit_coords)
                kind, blob = store_logits[pg]
                try:
                    target.load_logits(blob)
                except Exception as e:
                    _v(res, 'load', 'load-raised|%s' % type(e).__name__, 'loading %s raised %r' % (spec['id'], e), k)
                    break
                log.add('consumer', 'load', [spec['id'], into, kind])
                shape.append('L' + into[0])
                ok = True
                n_restored = 0
                for ln in target.lines_iterator():
                    mdl = model[pg].get(ln.id)
                    if mdl is None or mdl == 'lost':
                        if mdl == 'lost':
                            res.probe('lost_entry_met')
                        a, b, c = pre[id(ln)]
                        if ln.logits is not a or ln.characters is not b or ln.logit_coords is not c:
                            _v(res, 'load', 'absent-line-touched', 'line %s is not in the file but was modified by load_logits' % ln.id, k)
                            ok = False
                            break
                        if into in ('xml+extra', 'other_page') and mdl is None:
                            res.probe('line_absent_from_file_left_untouched')
                        continue
                    got = line_model(ln) if ln.logits is not None else {'m': None, 'chars': ln.characters, 'coords': ln.logit_coords}
                    for key, name in (('m', 'matrix'), ('chars', 'characters'), ('coords', 'coords')):
                        if got[key] != mdl[key]:
                            _v(res, 'load', 'restore-mismatch|%s' % name, 'line %s: %s after load differs from what was saved (%s vs %s)' % (ln.id, name, got[key], mdl[key]), k)
                            ok = False
                            break
                    if not ok:
                        break
                    n_restored += 1
                    if not check_dense(res, ln, k):
                        ok = False
                        break
                if not ok:
                    break
                if n_restored:
                    res.probe('lines_restored', n_restored)
                # ---- consumer: re-decode and re-export from the rebuilt layout
                if op.get('decode') and (into in ('xml', 'xml+extra') or (
                        into == 'redensified' and cfg.get('conf_threshold') in (None, 'inf'))):
                    if consumer is None:
                        consumer = new_parser(ini)
                    ref_layout = copy.deepcopy(originals[pg])
                    try:
                        ref_out = new_parser(ini).process_page(None, ref_layout)
                        ref_tr = {ln.id: ln.transcription for ln in ref_out.lines_iterator()}
                        ref_alto = alto_text(ref_out)
                    except Exception as e:
                        ref_tr, ref_alto = 'failed:' + type(e).__name__, None
                    try:
                        out = consumer.process_page(None, target)
                        tr = {ln.id: ln.transcription for ln in out.lines_iterator()}
                        alto = alto_text(out)
                    except Exception as e:
                        tr, alto = 'failed:' + type(e).__name__, None
                    log.add('consumer', 'decode', [spec['id'], kernel.sha(tr)])
                    exempt = {i for i, mm in model[pg].items() if mm == 'lost'} | {'extra-not-in-file'}
                    if cfg.get('carry') and cfg.get('lm'):
                        # with LM state carried across lines, a line that could not be decoded (lost entry)
                        # legitimately changes the context of every later line of the page
                        order = [ln.id for ln in target.lines_iterator()]
                        first = min([order.index(i) for i in exempt if i in order] or [len(order)])
                        exempt |= set(order[first:])
                    if isinstance(tr, dict) and isinstance(ref_tr, dict):
                        diff = [i for i in ref_tr if i not in exempt and tr.get(i) != ref_tr[i]]
                        if diff:
                            _v(res, 'consumer', 'redecode-differs', 'line %s re-decodes to %r from the saved artefacts, %r from the original layout' % (diff[0], tr.get(diff[0]), ref_tr[diff[0]]), k)
                            break
                        if not exempt & set(tr) and pg not in legacy and alto != ref_alto:
                            _v(res, 'consumer', 'alto-text-differs', 'ALTO text %s from the saved artefacts, %s from the original layout' % (alto, ref_alto), k)
                            break
                        if any(ref_tr.values()):
                            res.probe('redecoded_nonempty_page')
                            res.nontrivial = kernel.sha([cfg, spec, ''.join(shape)])
                    elif tr != ref_tr:
                        _v(res, 'consumer', 'redecode-differs', 're-decoding from the saved artefacts gave %s, from the original layout %s' % (tr, ref_tr), k)
                        break
                if op.get('scribble'):
                    # a downstream consumer post-processes the loaded layout in place; later loads of the same
                    # artefact must not see any of it
                    for ln in target.lines_iterator():
                        if ln.logits is not None and ln.logits.nnz:
                            ln.logits.data *= 0.5
                        if isinstance(ln.characters, list):
                            ln.characters.append('!')
                        if isinstance(ln.logit_coords, list) and ln.logit_coords:
                            ln.logit_coords[0] = 99
                    res.probe('loaded_layout_modified_in_place')
                res.states.append(kernel.sha([spec, into, sorted((i, m == 'lost') for i, m in model[pg].items())]))
    finally:
        shutil.rmtree(d, ignore_errors=True)
    res.digest = log.digest()
    res.sim_time = clock.elapsed
    res.excerpt = log.excerpt(30)
    res.sim_processes += 1
    return res


def shrink_candidates(plan):
    ops = plan['ops']
    for k in range(len(ops)):
        if len(ops) > 1:
            c = copy.deepcopy(plan)
            del c['ops'][k]
            yield c
    for k, op in enumerate(ops):
        for key in ('strip',):
            if op.get(key):
                c = copy.deepcopy(plan)
                del c['ops'][k][key]
                yield c
        if op.get('into') not in (None, 'xml'):
            c = copy.deepcopy(plan)
            c['ops'][k]['into'] = 'xml'
            yield c
        if op.get('via') == 'bytes':
            c = copy.deepcopy(plan)
            c['ops'][k]['via'] = 'file'
            yield c
    for p, page in enumerate(plan['pages']):
        for j in range(len(page['lines'])):
            c = copy.deepcopy(plan)
            del c['pages'][p]['lines'][j]
            yield c
        for j, ln in enumerate(page['lines']):
            if ln['frames'] > 1:
                c = copy.deepcopy(plan)
                c['pages'][p]['lines'][j]['frames'] = max(1, ln['frames'] // 2)
                yield c
    for key, simple in (('conf_threshold', None), ('insertion_bonus', 0.0), ('beam', 1), ('carry', False), ('lm', False)):
        if plan['cfg'].get(key) != simple:
            c = copy.deepcopy(plan)
            c['cfg'][key] = simple
            if key == 'lm':
                c['cfg']['carry'] = False
            yield c
