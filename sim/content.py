"""Deterministic workload content: everything is derived from small integer specs
stored in the plan, so that a plan stays readable pure data and shrinks well."""
import numpy as np
from scipy import sparse

ALPHABET = ['a', 'b', 'c', 'd', 'e', 'f']
ZWSP = '\u200b'


UNICODE_ALPHABET = ['a', 'e', '\u0301', '\u2126', 'o', '\u0308']   # combining marks, a canonically decomposable sign


def charset(nchars, with_space=False, kind='ascii'):
    if kind == 'arabic':
        chars = ['\u0627', '\u0628', '1', '2', '.', '\u062a'][:max(5, nchars)]     # letters, digits and punctuation
        return chars + ([' '] if with_space else [])
    if kind == 'big':
        chars = [chr(0x100 + i) for i in range(nchars)]       # a charset the size of a real OCR model's
        return chars + ([' '] if with_space else [])
    chars = (UNICODE_ALPHABET if kind == 'unicode' else ALPHABET)[:nchars]
    if with_space:
        chars = chars + [' ']
    return chars


def line_dense_logits(seed, frames, nsym, amb, value_range='std'):
    """(frames, nsym + 1) float32 logits, last column = CTC blank.
    Each frame has a main class, with probability ``amb`` a strong rival (so that
    beam search and the LM have something to decide), small noise elsewhere."""
    rs = np.random.RandomState(int(seed) % (2 ** 31))
    x = rs.uniform(-6.0, -2.0, size=(frames, nsym + 1))
    prev = None
    for t in range(frames):
        r = rs.rand()
        if prev is not None and r < 0.3:
            main = prev
        elif r < 0.55:
            main = nsym
        else:
            main = rs.randint(0, nsym)
        x[t, main] = rs.uniform(4.0, 7.0)
        if rs.rand() < amb:
            rival = rs.randint(0, nsym + 1)
            if rival != main:
                x[t, rival] = x[t, main] - rs.uniform(0.05, 1.5)
        if rs.rand() < 0.15:
            x[t, rs.randint(0, nsym + 1)] = -30.0   # will be pruned for sure
        prev = main
    if value_range == 'extreme':
        # a huge dynamic range inside one line: hot frames far above, cold frames far below
        # (all still above the -80 floor): exercises the numerics of row normalisation
        for t in range(frames):
            if rs.rand() < 0.5:
                x[t] += 63.0
            else:
                x[t] = rs.uniform(-63.0, -54.0, size=nsym + 1)
    if value_range == 'huge':
        # unnormalised network outputs far beyond exp()'s float32 range (> 88.7) in hot frames, cold frames as above
        for t in range(frames):
            if rs.rand() < 0.5:
                x[t] += 90.0
            else:
                x[t] = rs.uniform(-63.0, -54.0, size=nsym + 1)
    if value_range == 'flat':
        # nearly uniform posteriors: almost nothing is pruned, so the sparse matrix is nearly dense
        x = rs.uniform(-1.0, 1.0, size=(frames, nsym + 1))
    if value_range == 'logprob':
        # a network that emits log-probabilities: the winner of a confident frame sits at about -1e-9
        x = x * 4.0
        x = x - np.logaddexp.reduce(x, axis=1)[:, np.newaxis]
    if value_range == 'subnormal':
        # log-probabilities in double precision whose winners are subnormal numbers (not 0.0, but tiny)
        x = x * 4.0
        x = x - np.logaddexp.reduce(x, axis=1)[:, np.newaxis]
        win = x.argmax(axis=1)
        x[np.arange(frames), win] = -np.ldexp(1.0, -1060) * (1 + np.arange(frames) % 3)
        return x.astype(np.float64)
    return x.astype(np.float32)


def sparsify_like_engine(dense):
    """Exactly what BaseEngineLineOCR.process_lines does to network outputs."""
    from pero_ocr.ocr_engine.softmax import softmax
    dense = dense.copy()
    probs = softmax(dense, axis=1)
    dense[probs < 0.0001] = 0
    return sparse.csc_matrix(dense)


def greedy_ctc(dense, chars):
    best = dense.argmax(axis=1)
    out = []
    prev = None
    blank = dense.shape[1] - 1
    for b in best:
        if b != prev and b != blank:
            out.append(chars[b])
        prev = b
    return ''.join(out)


def _char_table(chars, variant):
    """Per-line character tables: the page's table, a permuted one, or one with the same length and
    the same concatenation but split differently (multi-codepoint symbol, empty symbol)."""
    chars = list(chars)
    if variant == 'samejoin' and len(chars) >= 2:
        return ['', chars[0] + chars[1]] + chars[2:]
    if variant:
        return chars[::-1]
    return chars


def build_line(line_spec, chars, line_id, y=40, width=200):
    from pero_ocr.core.layout import TextLine
    frames = int(line_spec['frames'])
    dense = line_dense_logits(line_spec['seed'], frames, len(chars), line_spec.get('amb', 0.4), line_spec.get('range', 'std'))
    logits = sparsify_like_engine(dense)
    if line_spec.get('dtype') == 'float64':
        logits = logits.astype(np.float64)       # e.g. logits merged or post-processed in double precision
    if line_spec.get('container') == 'csc_array':
        logits = sparse.csc_array(logits)        # scipy's newer sparse *array* containers
    elif line_spec.get('container') == 'csr_matrix':
        logits = sparse.csr_matrix(logits)
    coords = line_spec.get('coords')
    if coords == 'none':
        logit_coords = [None, None]
    elif coords == 'zero':
        logit_coords = [0, frames]          # a window that starts at frame 0 (zero padding, transformer convention)
    else:
        lo = min(1, frames)
        logit_coords = [lo, max(lo, frames - 1)]
    transcription = greedy_ctc(dense, chars)
    if line_spec.get('ocr_text') is not None:
        transcription = line_spec['ocr_text']
    return TextLine(
        id=line_id,
        baseline=np.asarray([[10, y], [10 + width, y]]),
        polygon=np.asarray([[10, y - 20], [10 + width, y - 20], [10 + width, y + 6], [10, y + 6]]),
        heights=[20.0, 6.0],
        transcription=transcription,
        logits=logits,
        characters=_char_table(chars, line_spec.get('chars_variant')) + [ZWSP],
        logit_coords=logit_coords,
        index=line_spec.get('index'))


def build_layout(page_spec, chars):
    """A PageLayout whose lines carry generated sparse logits, as PageOCR leaves it."""
    from pero_ocr.core.layout import PageLayout, RegionLayout
    nlines = len(page_spec['lines'])
    h = 60 + 40 * max(1, nlines)
    layout = PageLayout(id=page_spec['id'], page_size=(h, 240))
    nreg = max(1, int(page_spec.get('regions', 1)))
    regions = [RegionLayout('r%d' % (k + 1), np.asarray([[0, 0], [240, 0], [240, h], [0, h]])) for k in range(nreg)]
    for j, ls in enumerate(page_spec['lines']):
        line = build_line(ls, chars, ls.get('id', 'l%03d' % j), y=40 + 40 * j)
        regions[j % nreg].lines.append(line)
    if page_spec.get('dup_line') and regions[0].lines:
        # the same line (same id, same content) listed under two regions: what from_pagexml produces
        # for nested TextRegions
        import copy as _copy
        regions.append(RegionLayout('r%d-nested' % (nreg + 1), regions[0].polygon.copy()))
        regions[-1].lines.append(_copy.deepcopy(regions[0].lines[0]))
    layout.regions = regions
    return layout


def layout_result(layout):
    """The observable result of a page: per line id, transcription and confidence."""
    out = []
    for line in layout.lines_iterator():
        conf = line.transcription_confidence
        out.append([line.id, line.transcription, None if conf is None else float(conf)])
    return out
