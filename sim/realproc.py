"""Cross-validation of the in-process restart model against reality (DESIGN.md 2.7).

``RealProcWorld`` is PfWorld with one difference: every simulated process is a
*fresh Python interpreter* (``python -m``-less child running this file) and a
kill is ``os._exit(137)`` at the chosen write seam.  The child reports its seam
events through a side file (simulator bookkeeping, not program state); the parent
appends them to its own event log, so that the event-log digest of a real-process
execution can be compared with the in-process simulation of the same plan.
"""
import json
import os
import subprocess
import sys

from . import kernel
from .pfworld import PfWorld, Proc

VERIF = os.path.dirname(os.path.dirname(os.path.abspath(__file__)))


class RealProcWorld(PfWorld):
    real_pool = False

    def install(self):
        self._installed = None          # nothing to patch in the parent

    def uninstall(self):
        pass

    def simulate_process(self, out, spec, extra_argv=None, ov=None):
        self.res.sim_processes += 1
        job = {'plan': self.plan, 'root': self.root, 'ini': self.ini, 'in_img': self.in_img, 'in_xml': self.in_xml,
               'in_logits': self.in_logits, 'out': out, 'spec': spec, 'ov': ov, 'extra_argv': extra_argv,
               'clock': {'now': self.clock.now, 'reads': self.clock.reads}, 'log_n': self.log.n,
               'real_pool': self.real_pool, 'repo': os.environ.get('VERIF_REPO', '/repo')}
        jp = os.path.join(self.root, 'job-%d.json' % self.res.sim_processes)
        rp = jp + '.result'
        with open(jp, 'w') as f:
            json.dump(job, f)
        env = dict(os.environ)
        cp = subprocess.run([sys.executable, os.path.join(VERIF, 'sim', 'realproc_child.py'), jp, rp], capture_output=True, text=True, env=env, timeout=600)
        if not os.path.exists(rp):
            raise kernel.HarnessError('real child process left no report (rc=%s): %s' % (cp.returncode, cp.stderr[-800:]))
        r = json.load(open(rp))
        if r['killed'] and cp.returncode != 137:
            raise kernel.HarnessError('child reported a kill but exited with %s' % cp.returncode)
        for ev in r['events']:
            self.log.add(ev[1], ev[2], ev[3])
        self.clock.now, self.clock.reads = r['clock']['now'], r['clock']['reads']
        for k, v in r['probes'].items():
            self.res.probe(k, v)
        for k, v in r['faults'].items():
            self.res.fault(k, v)
        p = Proc(spec)
        for k in ('writes_done', 'writes', 'processed', 'killed', 'exit', 'stdout', 'killed_at_exit', 'failed_pages'):
            setattr(p, k, r[k])
        p.exc_text = r.get('exc_text', '')
        p.stderr = ''
        self.res.fault('real_process_spawned')
        if r['killed']:
            self.res.fault('real_process_death_os_exit_137')
        return p


def child(job_path, result_path):
    job = json.load(open(job_path))
    sys.path.insert(0, VERIF)
    for p in (os.path.join(job['repo'], 'user_scripts'), job['repo']):
        sys.path.insert(0, p)
    import logging
    logging.getLogger().handlers = [logging.NullHandler()]
    import torch
    torch.set_num_threads(1)
    import cv2
    cv2.setNumThreads(1)
    from sim import content, pfworld
    res = kernel.RunResult()
    log = kernel.EventLog(keep=100000)
    w = PfWorld(job['plan'], res, log)
    w.root, w.ini = job['root'], job['ini']
    w.in_img, w.in_xml, w.in_logits = job['in_img'], job['in_xml'], job['in_logits']
    w.chars = content.charset(job['plan']['cfg']['nchars'], job['plan']['cfg'].get('space', False), job['plan']['cfg'].get('charset', 'ascii'))
    w.clock.now, w.clock.reads = job['clock']['now'], job['clock']['reads']
    w.install()
    if job['real_pool']:
        import parse_folder
        from multiprocessing import Pool
        parse_folder.Pool = Pool
    res.sim_processes = 0
    p = w.simulate_process(job['out'], job['spec'], extra_argv=job.get('extra_argv'), ov=job.get('ov'))
    events = [list(e) for e in log.events]
    out = {'events': events, 'clock': {'now': w.clock.now, 'reads': w.clock.reads},
           'probes': res.probes, 'faults': res.faults, 'writes_done': p.writes_done, 'writes': p.writes,
           'processed': p.processed, 'killed': p.killed, 'exit': p.exit, 'stdout': p.stdout[-2000:],
           'killed_at_exit': p.killed_at_exit, 'exc_text': getattr(p, 'exc_text', ''), 'failed_pages': p.failed_pages}
    with open(result_path, 'w') as f:
        json.dump(out, f, default=str)
        f.flush()
        os.fsync(f.fileno())
    if p.killed:
        os._exit(137)          # no interpreter shutdown, no atexit, no buffered flushes: a kill
    sys.exit(0)

