"""trworld: the real transformer decoder modules with their key/value caches,
driven through histories of batches on ONE long-lived model instance under a
poisoned allocator and injected aborts (C20).

Real: TransformerOCR (forward, encode, get_mask), LineSelfAttentionEncoder, Decoder,
DecoderLayer.infer, CustomMultiheadAttention.cached_forward, PositionalEncoding,
TransformerEngineLineOCR.transcribe_batch / postprocess_decoded / decode.
Stub: the convolutional front-end (the stock one downloads VGG weights); it is
stateless and precedes every cache.
"""
import contextlib
import copy
import io

import numpy as np

from . import kernel

TOL = 1e-3          # absolute tolerance on logits (typical agreement ~1e-5)
REL = 1.5e-4        # ... or this fraction of the largest score magnitude of the batch, whichever is larger:
                    # float32 noise grows with the scale of the scores (1e-3 was exceeded by pure rounding
                    # noise, 1.0e-3..1.9e-3, on 3 of 24 000 plans with |scores| of 21..30)
TIE = 4e-3          # an arg-max margin below this may legitimately flip a symbol


def _torch():
    import torch
    return torch


class TorchProxy:
    """Stands in for the ``torch`` module inside pero_ocr.ocr_engine.transformer:
    ``empty`` returns poisoned memory instead of whatever the OS hands out."""

    def __init__(self, real, mode, stats):
        self.__dict__['_real'] = real
        self.__dict__['_mode'] = mode
        self.__dict__['_stats'] = stats

    def __getattr__(self, name):
        return getattr(self._real, name)

    def empty(self, *a, **k):
        t = self._real.empty(*a, **k)
        self._stats['allocations_poisoned'] = self._stats.get('allocations_poisoned', 0) + 1
        if t.numel() == 0:
            return t
        if self._mode == 'nan':
            t.fill_(float('nan'))
        else:
            n = t.numel()
            g = (self._real.arange(n, dtype=self._real.float32) * 0.7548776662) % 1.0
            t.copy_(((g - 0.5) * 4000.0).reshape(t.shape))
        return t


def make_frontend(in_height, dim, sub=4):
    torch = _torch()

    class StubFrontend(torch.nn.Module):
        def __init__(self):
            super().__init__()
            self.conv = torch.nn.Conv2d(3, dim, kernel_size=(in_height, sub), stride=(in_height, sub))

        def forward(self, x):
            # like ConvolutionalEncoder.forward: squeeze() drops the batch axis for a batch of one
            return torch.squeeze(torch.nn.functional.leaky_relu(self.conv(x)))
    return StubFrontend()


def make_counting_proj(inner):
    """Wraps net.dec_out_proj: counts decoding steps (the deterministic step cap)
    and raises the injected abort at a chosen step."""
    torch = _torch()

    class CountingProj(torch.nn.Module):
        def __init__(self):
            super().__init__()
            self.inner = inner
            self.calls = 0
            self.abort_at = None
            self.cap = 400

        def __getattr__(self, name):
            # transparent wrapper: anything a Linear layer offers (out_features, weight, bias, ...) is the inner one's
            try:
                return super().__getattr__(name)
            except AttributeError:
                return getattr(super().__getattr__('inner'), name)

        def forward(self, x):
            n = self.calls
            self.calls += 1
            if self.cap is not None and n >= self.cap:
                raise kernel.StepCapExceeded('decoding step %d beyond cap %d' % (n, self.cap))
            if self.abort_at is not None and n == self.abort_at:
                raise kernel.InjectedFault('injected abort at decoding step %d' % n)
            return self.inner(x)
    return CountingProj()


def build_net(m):
    torch = _torch()
    from pero_ocr.ocr_engine import transformer
    fe = make_frontend(m['H'], m['dim'])
    enc = transformer.LineSelfAttentionEncoder(dropout=0.0, max_seq_len=m['max_seq_len'], dim_model=m['dim'],
                                               dim_ff=m['ff'], nb_layers=m['enc_layers'], nb_heads=m['heads'])
    net = transformer.TransformerOCR(fe, enc, num_classes=m['nsym'] + 2, dropout=0.0, nb_layers=m['dec_layers'],
                                     dim_model=m['dim'], dim_ff=m['ff'], max_seq_len=m['max_seq_len'],
                                     nb_heads=m['heads'])
    g = torch.Generator().manual_seed(int(m['seed']))
    with torch.no_grad():
        for name, p in net.named_parameters():
            if p.dim() >= 2:
                p.copy_(torch.randn(p.shape, generator=g) * m['gain'] / (p.shape[-1] ** 0.5))
            elif 'norm' not in name:
                p.copy_(torch.randn(p.shape, generator=g) * 0.3)
        net.dec_out_proj.weight.mul_(4.0)
        ag = float(m.get('attn_gain', 1.0))
        if ag != 1.0:
            # very peaked attention (scaled scores far beyond +-88): legal, and numerically harmless
            # for a max-subtracting softmax
            for layer in net.trans_decoder.layers:
                for att in (layer.self_attn, layer.multihead_attn):
                    att.in_proj_weight[:2 * m['dim']].mul_(ag)
    net.eval()
    return net


def make_engine(net, nsym):
    torch = _torch()
    from pero_ocr.ocr_engine.transformer_ocr_engine import TransformerEngineLineOCR
    eng = TransformerEngineLineOCR.__new__(TransformerEngineLineOCR)   # skip weight loading only
    eng.characters = list('abcdefghij'[:nsym]) + ['\u200b', '']
    eng.sentence_boundary_ind = len(eng.characters) - 2
    eng.ignore_ind = len(eng.characters) - 1
    if not hasattr(net.dec_out_proj, 'abort_at'):
        net.dec_out_proj = make_counting_proj(net.dec_out_proj)   # every engine gets the step cap
    eng.net = net
    eng.device = torch.device('cpu')
    return eng


def batch_input(b, H):
    rs = np.random.RandomState(int(b['seed']) % (2 ** 31))
    x = rs.randint(0, 256, size=(b['n'], 3, H, b['w'])).astype(np.uint8)
    if b.get('dup') and b['n'] >= 2:      # two identical lines in one batch must behave identically
        x[1] = x[0]
    if b.get('blank') and b['n'] >= (3 if b.get('dup') else 2):
        x[b['n'] - 1] = 0                 # an entirely black crop (what the cropper hands over for a line it cannot cut)
    return x


def calibrate_eos(net, m, wcal=64):
    """Shift the end-of-sentence bias so that lines stop at various steps instead of
    'all at once or never' (random weights otherwise give degenerate lengths)."""
    torch = _torch()
    c = copy.deepcopy(net)
    eos = m['nsym']
    with torch.no_grad():
        c.dec_out_proj.bias[eos] -= 60.0
        eng = make_engine(c, m['nsym'])
        x = batch_input({'n': 4, 'w': wcal, 'seed': m['seed'] + 17}, m['H'])
        _, logits = sut('transcribe_batch(calibration)', eng.transcribe_batch, x, is_cached=False)
        raw = logits.clone()
        raw[:, :, eos] += 60.0
        others = raw.clone()
        others[:, :, eos] = -1e9
        margin = (raw[:, :, eos] - others.max(dim=-1).values).flatten()
        q = float(torch.quantile(margin, m['eos_q']))
        net.dec_out_proj.bias[eos] -= q
    return -q


def line_end_steps(logits, eos, cap_steps):
    """Per line: index of the first step whose arg-max is the boundary symbol (None = never)."""
    samples = logits.argmax(dim=-1)
    ends = []
    for n in range(samples.shape[0]):
        hit = (samples[n] == eos).nonzero()
        ends.append(int(hit[0]) if len(hit) else None)
    return ends


def min_margin(logits):
    top2 = logits.topk(2, dim=-1).values
    return float((top2[..., 0] - top2[..., 1]).min())


def gen_plan(seed, tier, index):
    r = kernel.rng(seed, 'C20', tier, index, 'plan')
    heads = r.choice([1, 2, 2, 4])
    dim = heads * r.choice([4, 8]) if heads < 4 else r.choice([8, 16, 32])
    dim = max(8, min(32, dim))
    m = {'seed': r.randrange(1 << 20), 'dim': dim, 'heads': heads, 'ff': r.choice([16, 32]),
         'enc_layers': 1, 'dec_layers': r.choice([1, 2, 2, 3]), 'nsym': r.choice([3, 5, 8]), 'H': 8,
         'gain': r.choice([1.0, 1.5, 2.0]) if dim > 8 else r.choice([1.0, 1.5]),
         'eos_q': r.choice([0.6, 0.8, 0.9, 0.95, 0.98])}
    if r.random() < 0.08:
        m['attn_gain'] = r.choice([12.0, 30.0])
    nb = r.randint(2, 8)
    batches = []
    prev = None
    for _ in range(nb):
        x = r.random()
        if prev is not None and x < 0.4:
            n, w = prev['n'], prev['w']                    # stale-capable: same batch size and width
        elif prev is not None and x < 0.6:
            n, w = prev['n'], r.choice([16, 32, 48, 64, 96, 160])  # same size, other width
        else:
            n, w = r.randint(1, 5), r.choice([16, 32, 48, 64, 96, 160])
        b = {'n': n, 'w': w, 'seed': r.randrange(1 << 30), 'cached': r.random() < 0.88}
        if r.random() < 0.12:
            b['abort_at'] = r.randint(0, 6)
        if r.random() < 0.1:
            b['dup'] = True
        if r.random() < 0.08:
            b['blank'] = True
        if 'abort_at' not in b and r.random() < 0.12:
            b['forced'] = r.randrange(1 << 30)      # arbitrary target prefix instead of the greedy path
        if r.random() < 0.05:
            b['reload'] = r.randrange(1 << 20)      # other weights are loaded into the SAME model object first
        batches.append(b)
        prev = b
    if r.random() < 0.05:
        # a very large batch of very short lines (process_lines builds up to 480*batch_size // width lines per batch)
        batches.insert(r.randrange(len(batches) + 1), {'n': r.choice([256, 256, 512, 255, 257]), 'w': r.choice([16, 32]),
                                                       'seed': r.randrange(1 << 30), 'cached': True, 'huge': True})
        m['dim'], m['heads'], m['dec_layers'], m['ff'] = 8, r.choice([1, 2]), min(m['dec_layers'], 2), 16
    cap = max(b['w'] for b in batches) // 4
    m['max_seq_len'] = cap + 2 if r.random() < 0.4 else 4 * cap + 8
    if r.random() < 0.06:
        # the engine's public entry point: run_ocr centre-pads narrow batches to 1088 px
        batches = []
        for _ in range(r.randint(2, 3)):
            batches.append({'n': r.randint(1, 3), 'w': r.choice([64, 128, 256, 512, 1120]), 'seed': r.randrange(1 << 30),
                            'cached': True, 'via': 'run_ocr'})
        m['max_seq_len'] = 1120 // 4 + 2 if r.random() < 0.5 else 400
        m['eos_q'] = r.choice([0.6, 0.8, 0.9])
        m['dec_layers'] = min(m['dec_layers'], 2)
    if r.random() < 0.03:
        # process_lines on a page of lines of DIFFERENT widths (some split): a line's result must not depend on the
        # content of the other lines of the call (widths, and with them the canvas geometry, stay the same)
        batches = [{'n': 0, 'w': 320, 'seed': r.randrange(1 << 30), 'cached': True, 'via': 'process_lines_mixed',
                    'widths': r.choice([[300, 200, 100, 100], [222, 220, 194, 194], [160, 160, 96, 64, 64], [400, 120, 120]]),
                    'mlw': r.choice([128, 128, 100000]), 'engine_batch': r.choice([1, 4]), 'change': r.choice([0, 0, 1])}]
        m['max_seq_len'] = 1120 // 4 + 2 if r.random() < 0.5 else 400
        m['eos_q'] = r.choice([0.5, 0.6])
        m['dec_layers'] = min(m['dec_layers'], 2)
        m.pop('attn_gain', None)
        return {'world': 'tr', 'model': m, 'poison': r.choice(['nan', 'nan', 'garbage']), 'batches': batches}
    if r.random() < 0.03:
        # through BaseEngineLineOCR.process_lines of the transformer engine: equal-width lines wider than
        # max_line_width are split into overlapping parts, decoded, and stitched together again
        batches = [{'n': r.randint(2, 4), 'w': r.choice([100, 160, 200]), 'seed': r.randrange(1 << 30), 'cached': True,
                    'via': 'process_lines', 'mlw': r.choice([48, 64])} for _ in range(r.randint(1, 2))]
        m['max_seq_len'] = 1120 // 4 + 2 if r.random() < 0.5 else 400
        m['eos_q'] = r.choice([0.5, 0.6])
        m['dec_layers'] = min(m['dec_layers'], 2)
        m.pop('attn_gain', None)
    return {'world': 'tr', 'model': m, 'poison': r.choice(['nan', 'nan', 'garbage']), 'batches': batches}


@contextlib.contextmanager
def quiet():
    with contextlib.redirect_stdout(io.StringIO()), contextlib.redirect_stderr(io.StringIO()):
        yield


class SutRaised(Exception):
    """The code under test raised on a valid input (lengths are kept inside the model limits)."""

    def __init__(self, where, exc):
        super().__init__('%s raised %s: %s' % (where, type(exc).__name__, exc))
        self.where, self.exc = where, exc


def sut(where, fn, *a, **kw):
    try:
        return fn(*a, **kw)
    except (kernel.InjectedFault, kernel.StepCapExceeded):
        raise
    except Exception as e:  # noqa
        raise SutRaised(where, e)


def _calibrate(pristine, m, plan):
    wcal = 256 if plan['batches'][0].get('via') else min(64, max(bb['w'] for bb in plan['batches']))
    if plan['batches'][0].get('via') in ('process_lines', 'process_lines_mixed'):
        wcal = 64
    return calibrate_eos(pristine, m, wcal)


def _viol(res, kind, sig, msg, k):
    res.violations.append(kernel.Violation('C20', kind, sig, 'batch %d: %s' % (k, msg), {'batch': k}))


_WORST = [0.0]      # largest (difference / tolerance) seen in the current run, reported in the evidence
_ILL = [False]      # peaked-attention model: score equality is ill-conditioned and not asserted (finiteness is)


def tol_for(logits):
    torch = _torch()
    fin = logits[torch.isfinite(logits)]
    scale = float(fin.abs().max()) if fin.numel() else 0.0
    if _ILL[0]:
        return float('inf')
    return max(TOL, REL * scale)


def _maxdiff(a, b, tol=None):
    torch = _torch()
    if a.shape != b.shape:
        return float('inf')
    d = (a - b).abs().max()
    d = float('inf') if not bool(torch.isfinite(d)) else float(d)
    if tol is not None and d != float('inf') and tol != float('inf'):
        _WORST[0] = max(_WORST[0], d / tol)
    return d


def check_batch(res, ctx, k, b, x, outs, logits):
    """All oracles for one successfully decoded batch.  Returns False to stop the run."""
    torch = _torch()
    m, pristine, live, plan = ctx['m'], ctx['pristine'], ctx['live'], ctx['plan']
    eos, ign = live.sentence_boundary_ind, live.ignore_ind
    cap_steps = b['w'] // 4 + 1
    steps = logits.shape[1]
    if steps > cap_steps:
        _viol(res, 'liveness', 'length-cap-exceeded', '%d steps for width %d (cap %d)' % (steps, b['w'], cap_steps), k)
        return False
    if not bool(torch.isfinite(logits).all()):
        _viol(res, 'cache', 'non-finite-scores|%s' % plan['poison'], 'scores contain NaN/inf (uninitialised cache cell read)', k)
        return False
    ends = line_end_steps(logits, eos, cap_steps)
    inner = [e for e in ends if e is not None and 0 < e]
    if len(set(ends)) > 1 and len(inner) >= 1:
        res.probe('lines_finish_at_different_steps')
    if any(e is None for e in ends):
        res.probe('line_hit_length_cap')
    if any(e == 0 for e in ends):
        res.probe('line_finished_immediately')
    # symbol-level comparisons are waived per line: a line whose arg-max margin is below TIE at some step
    # may legitimately flip a symbol under float noise (lines are independent, so only that line is waived)
    top2 = logits.topk(2, dim=-1).values
    line_margin = (top2[..., 0] - top2[..., 1]).min(dim=1).values
    tie = [bool(line_margin[n] < TIE) or _ILL[0] for n in range(logits.shape[0])]
    if any(tie) and not _ILL[0]:
        res.probe('near_tie_waiver', sum(tie))
    tol = tol_for(logits)
    # --- outputs free of boundary / ignore symbols, consistent with the scores
    samples = logits.argmax(dim=-1)
    for n, o in enumerate(outs):
        ol = [int(s) for s in o]
        if eos in ol or ign in ol:
            _viol(res, 'output', 'boundary-or-ignore-in-output', 'line %d output %s contains boundary/ignore symbol' % (n, ol), k)
            return False
        # the sample of the last step is never appended when the loop stops on the cap
        avail = steps - 1 if ends[n] is None else ends[n]
        want = [int(s) for s in samples[n, :avail] if int(s) != ign]
        if ol != want and not tie[n]:
            _viol(res, 'output', 'transcription-not-argmax-prefix', 'line %d output %s but arg-max prefix %s' % (n, ol, want), k)
            return False
        text = sut('decode', live.decode, [o])[0]
        if '\u200b' in text or len(text) != len(ol):
            _viol(res, 'output', 'boundary-or-ignore-in-output', 'line %d text %r does not spell its %d symbols' % (n, text, len(ol)), k)
            return False
    # --- oracle 1: uncached recomputation on a fresh deep copy, fed the emitted symbols
    fresh = copy.deepcopy(pristine)
    xt = torch.from_numpy(x).float() / 255.0
    enc = sut('encode', fresh.encode, xt)
    fed = torch.cat([torch.full((1, b['n']), eos, dtype=torch.long), samples.permute(1, 0)[:steps - 1]], dim=0)
    embs = fresh.dec_embeder(fed)
    worst = 0.0
    for t in range(steps):
        out = fresh.dec_out_proj(sut('Decoder.infer(uncached)', fresh.trans_decoder.infer,
                                     fresh.pos_encoder(embs[:t + 1]), enc, is_cached=False))
        worst = max(worst, _maxdiff(out, logits[:, t], tol))
    if worst > tol:
        _viol(res, 'cache', 'cached-vs-uncached-scores', 'cached=%s scores differ from uncached recomputation by %.3g' % (b['cached'], worst), k)
        return False
    # --- oracle 1b: cached stepping on a fresh deep copy (empty caches), fed the emitted symbols
    fresh = copy.deepcopy(pristine)
    worst = 0.0
    for t in range(steps):
        out = fresh.dec_out_proj(sut('Decoder.infer(cached)', fresh.trans_decoder.infer,
                                     fresh.pos_encoder(embs[:t + 1]), enc, is_cached=True))
        worst = max(worst, _maxdiff(out, logits[:, t], tol))
    if worst > tol:
        _viol(res, 'cache', 'history-vs-fresh-cached-scores', 'scores differ from cached decoding on a fresh model by %.3g' % worst, k)
        return False
    # --- oracle 2: teacher-forced masked forward over the emitted symbols
    tf = sut('forward', copy.deepcopy(pristine).forward, xt, fed.permute(1, 0)).permute(1, 0, 2)
    d = _maxdiff(tf, logits, tol)
    if d > tol:
        _viol(res, 'cache', 'stepwise-vs-teacher-forced-scores', 'step-by-step scores differ from the masked forward pass by %.3g' % d, k)
        return False
    # --- oracle 3: whole uncached transcribe_batch on a fresh copy gives the same transcriptions
    if not all(tie):
        eng_u = make_engine(copy.deepcopy(pristine), m['nsym'])
        eng_u.net.dec_out_proj.cap = cap_steps + 3
        outs_u, logits_u = sut('transcribe_batch(uncached)', eng_u.transcribe_batch, x, is_cached=False)
        if [o.tolist() for n, o in enumerate(outs_u) if not tie[n]] != [o.tolist() for n, o in enumerate(outs) if not tie[n]]:
            _viol(res, 'cache', 'cached-vs-uncached-transcription', 'transcriptions differ: %s vs %s' % ([o.tolist() for o in outs], [o.tolist() for o in outs_u]), k)
            return False
    # --- oracle 4: every line alone (fresh copy, cached) = the line inside its batch
    if b['n'] > 1:
        if b.get('huge'):
            res.probe('huge_batch_checked')
        for n in (range(b['n']) if not b.get('huge') else range(0, b['n'], 16)):
            if tie[n]:
                continue
            eng_1 = make_engine(copy.deepcopy(pristine), m['nsym'])
            eng_1.net.dec_out_proj.cap = cap_steps + 3
            o1, l1 = sut('transcribe_batch(line alone)', eng_1.transcribe_batch, x[n:n + 1], is_cached=True)
            s1 = l1.shape[1]
            exp_steps = (ends[n] + 1) if ends[n] is not None else cap_steps
            if s1 != exp_steps or s1 > steps:
                _viol(res, 'batch-independence', 'line-alone-length', 'line %d alone ran %d steps, in batch it ended after %d' % (n, s1, exp_steps), k)
                return False
            d = _maxdiff(l1[0], logits[n, :s1], tol)
            if d > tol:
                _viol(res, 'batch-independence', 'line-alone-scores', 'line %d alone differs from in-batch scores by %.3g' % (n, d), k)
                return False
            if o1[0].tolist() != outs[n].tolist():
                _viol(res, 'batch-independence', 'line-alone-transcription', 'line %d alone %s, in batch %s' % (n, o1[0].tolist(), outs[n].tolist()), k)
                return False
        res.probe('lines_checked_alone', b['n'])
    if b.get('dup') and b['n'] >= 2 and not (tie[0] or tie[1]):
        if outs[0].tolist() != outs[1].tolist() or _maxdiff(logits[0], logits[1], tol) > tol:
            _viol(res, 'batch-independence', 'identical-lines-differ', 'two identical lines of one batch got different results', k)
            return False
        res.probe('identical_lines_in_batch')
    return True


def forced_prefix_batch(res, ctx, k, b, x, proj, log):
    """Steps the LIVE model's decoder through an arbitrary target prefix (any symbols, incl. the
    ignore symbol and inner boundary symbols, up to the length cap) and compares every step with
    the teacher-forced masked forward pass and with uncached stepping on fresh copies."""
    torch = _torch()
    m, pristine, live = ctx['m'], ctx['pristine'], ctx['live']
    net = live.net
    eos = live.sentence_boundary_ind
    rs = np.random.RandomState(int(b['forced']) % (2 ** 31))
    length = int(rs.randint(1, b['w'] // 4 + 2))
    labels = rs.randint(0, m['nsym'] + 2, size=(length, b['n']))
    labels[0, :] = eos
    fed = torch.from_numpy(labels).long()
    xt = torch.from_numpy(x).float() / 255.0
    proj.calls, proj.abort_at, proj.cap = 0, None, length + 3
    enc = sut('encode', net.encode, xt)
    embs = net.dec_embeder(fed)
    rows = []
    for t in range(length):
        rows.append(net.dec_out_proj(sut('Decoder.infer(live, forced prefix)', net.trans_decoder.infer,
                                         net.pos_encoder(embs[:t + 1]), enc, is_cached=b['cached'])))
    got = torch.stack(rows).permute(1, 0, 2)
    log.add('live', 'forced', [k, b['n'], b['w'], b['cached'], length, kernel.sha(got.numpy().round(2).tolist())])
    res.probe('forced_prefix_batches')
    if not bool(torch.isfinite(got).all()):
        _viol(res, 'cache', 'non-finite-scores|%s' % ctx['plan']['poison'], 'scores of a forced prefix contain NaN/inf', k)
        return False
    tol = tol_for(got)
    tf = sut('forward', copy.deepcopy(pristine).forward, xt, fed.permute(1, 0)).permute(1, 0, 2)
    d = _maxdiff(tf, got, tol)
    if d > tol:
        _viol(res, 'cache', 'stepwise-vs-teacher-forced-scores', 'forced prefix: step-by-step scores differ from the masked forward pass by %.3g' % d, k)
        return False
    fresh = copy.deepcopy(pristine)
    enc2 = fresh.encode(xt)
    embs2 = fresh.dec_embeder(fed)
    worst = 0.0
    for t in range(length):
        out = fresh.dec_out_proj(sut('Decoder.infer(uncached)', fresh.trans_decoder.infer, fresh.pos_encoder(embs2[:t + 1]), enc2, is_cached=False))
        worst = max(worst, _maxdiff(out, got[:, t], tol))
    if worst > tol:
        _viol(res, 'cache', 'cached-vs-uncached-scores', 'forced prefix: scores differ from uncached recomputation by %.3g' % worst, k)
        return False
    return True


def _as_line_engine(eng, m, mlw):
    """The attributes BaseEngineLineOCR.__init__ would have set from ocr.json (the engine object itself was
    created without loading weights)."""
    eng.line_px_height = m['H']
    eng.max_line_width = mlw
    eng.line_padding_px = 32
    eng.batch_size = 4
    eng.max_input_horizontal_pixels = 480 * 4
    eng.model_type = 'transformer'
    eng.net_subsampling = 4
    return eng


def process_lines_batch(res, ctx, k, b, x, proj, log):
    """A page of equal-width lines through process_lines (splitting, run_ocr, stitching): every line must get
    what it gets when it is the only line of the page, on a fresh model."""
    torch = _torch()
    m, pristine, live = ctx['m'], ctx['pristine'], ctx['live']
    lines = [np.ascontiguousarray(np.transpose(x[i], (1, 2, 0))) for i in range(x.shape[0])]
    _as_line_engine(live, m, b['mlw'])
    proj.calls, proj.abort_at, proj.cap = 0, None, None
    try:
        tr, lg, _ = sut('process_lines', live.process_lines, lines, sparse_logits=False)
        res.probe('process_lines_pages')
        for i, line in enumerate(lines):
            ref = _as_line_engine(make_engine(copy.deepcopy(pristine), m['nsym']), m, b['mlw'])
            ref.net.dec_out_proj.cap = None
            tr1, lg1, _ = sut('process_lines(line alone)', ref.process_lines, [line], sparse_logits=False)
            a, c = np.asarray(lg[i]), np.asarray(lg1[0])
            tol = tol_for(torch.from_numpy(c)) if c.size else TOL
            same_shape = a.shape == c.shape
            d = float(np.abs(a - c).max()) if same_shape and a.size else (0.0 if same_shape else float('inf'))
            if not np.isfinite(a).all():
                _viol(res, 'cache', 'non-finite-scores|%s' % ctx['plan']['poison'], 'process_lines scores contain NaN/inf', k)
                return False
            margin = min_margin(torch.from_numpy(c)) if c.ndim == 2 and c.shape[0] and c.shape[1] >= 2 else 1.0
            if (d > tol or tr[i] != tr1[0]) and margin >= TIE:
                _viol(res, 'batch-independence', 'process_lines-line-alone', 'line %d of a page of equal-width split lines gives %r (score diff %.3g), alone %r' % (i, tr[i], d, tr1[0]), k)
                return False
            if '\u200b' in tr[i]:
                _viol(res, 'output', 'boundary-or-ignore-in-output', 'process_lines text contains the boundary character', k)
                return False
        log.add('live', 'process_lines', [k, b['n'], b['w'], b['mlw'], kernel.sha(tr)])
    except SutRaised as e:
        _viol(res, 'termination', 'decode-raised|%s|%s' % (e.where, type(e.exc).__name__), str(e)[:300], k)
        return False
    return True


def process_lines_mixed(res, ctx, k, b, proj, log):
    """process_lines on lines of different widths: replacing the CONTENT of one line (same shape) must leave the
    transcription and scores of every other line of the call unchanged."""
    torch = _torch()
    m, pristine, live = ctx['m'], ctx['pristine'], ctx['live']
    rs = np.random.RandomState(int(b['seed']) % (2 ** 31))
    lines = [rs.randint(0, 256, size=(m['H'], w, 3)).astype(np.uint8) for w in b['widths']]
    other = [ln.copy() for ln in lines]
    ch = int(b['change']) % len(lines)
    other[ch] = rs.randint(0, 256, size=lines[ch].shape).astype(np.uint8)
    proj.calls, proj.abort_at, proj.cap = 0, None, None
    try:
        def engine(net):
            e = _as_line_engine(make_engine(net, m['nsym']), m, b['mlw'])
            e.batch_size = b['engine_batch']
            e.max_input_horizontal_pixels = 480 * b['engine_batch']
            e.net.dec_out_proj.cap = None
            return e
        tr_a, lg_a, _ = sut('process_lines', engine(live.net).process_lines, lines, sparse_logits=False)
        tr_b, lg_b, _ = sut('process_lines', engine(copy.deepcopy(pristine)).process_lines, other, sparse_logits=False)
    except SutRaised as e:
        _viol(res, 'termination', 'decode-raised|%s|%s' % (e.where, type(e.exc).__name__), str(e)[:300], k)
        return False
    res.probe('process_lines_mixed_width_pages')
    for i in range(len(lines)):
        if i == ch:
            continue
        a, c = np.asarray(lg_a[i]), np.asarray(lg_b[i])
        if not np.isfinite(a).all():
            _viol(res, 'cache', 'non-finite-scores|%s' % ctx['plan']['poison'], 'process_lines scores contain NaN/inf', k)
            return False
        tol = tol_for(torch.from_numpy(c)) if c.size else TOL
        d = float(np.abs(a - c).max()) if a.shape == c.shape and a.size else (0.0 if a.shape == c.shape else float('inf'))
        margin = min_margin(torch.from_numpy(c)) if c.ndim == 2 and c.shape[0] and c.shape[1] >= 2 else 1.0
        if (d > tol or tr_a[i] != tr_b[i]) and margin >= TIE:
            _viol(res, 'batch-independence', 'process_lines-content-of-other-line',
                  'line %d (width %d) changed (%r -> %r, score diff %.3g) when only the content of line %d changed' % (i, b['widths'][i], tr_a[i], tr_b[i], d, ch), k)
            return False
    log.add('live', 'process_lines_mixed', [k, b['widths'], b['mlw'], kernel.sha(tr_a)])
    return True


def run_ocr_batch(res, ctx, k, b, x, proj, log):
    """One batch through TransformerEngineLineOCR.run_ocr (uint8 NHWC in, centre padding to 1088 px):
    must equal transcribe_batch on a fresh model given the explicitly padded input."""
    torch = _torch()
    m, pristine, live = ctx['m'], ctx['pristine'], ctx['live']
    nhwc = np.ascontiguousarray(np.transpose(x, (0, 2, 3, 1)))
    w = x.shape[3]
    if w < 1088:
        padded = np.zeros((x.shape[0], 3, x.shape[2], 1088), dtype=np.uint8)
        s0 = (1088 - w) // 2
        padded[:, :, :, s0:s0 + w] = x
    else:
        padded = x
    cap_steps = padded.shape[3] // 4 + 1
    proj.calls, proj.abort_at, proj.cap = 0, None, cap_steps + 3
    try:
        decoded, logits = sut('run_ocr', live.run_ocr, nhwc)
        ref = make_engine(copy.deepcopy(pristine), m['nsym'])
        ref.net.dec_out_proj.cap = cap_steps + 3
        ref_outs, ref_logits = sut('transcribe_batch(fresh, padded)', ref.transcribe_batch, padded, is_cached=True)
    except SutRaised as e:
        _viol(res, 'termination', 'decode-raised|%s|%s' % (e.where, type(e.exc).__name__), str(e)[:300], k)
        return False
    except kernel.StepCapExceeded:
        _viol(res, 'liveness', 'no-termination-within-cap', 'run_ocr did not stop within the cap for width %d' % w, k)
        return False
    logits = torch.from_numpy(np.asarray(logits))
    log.add('live', 'run_ocr', [k, b['n'], w, logits.shape[1], kernel.sha(logits.numpy().round(2).tolist())])
    res.probe('run_ocr_batches')
    if w < 1088:
        res.probe('run_ocr_centre_padded')
    tol = tol_for(ref_logits)
    d = _maxdiff(logits, ref_logits, tol)
    near_tie = min_margin(ref_logits) < TIE
    if d > tol and not (near_tie and logits.shape != ref_logits.shape):
        _viol(res, 'cache', 'run_ocr-vs-fresh-scores', 'run_ocr scores differ from a fresh model on the padded input by %.3g' % d, k)
        return False
    want = ref.decode(ref_outs)
    if list(decoded) != list(want) and not near_tie:
        _viol(res, 'cache', 'run_ocr-vs-fresh-transcription', 'run_ocr gave %r, a fresh model %r' % (decoded, want), k)
        return False
    if any('\u200b' in t for t in decoded):
        _viol(res, 'output', 'boundary-or-ignore-in-output', 'run_ocr text contains the boundary character', k)
        return False
    # teacher-forced pass over the symbols that were fed
    steps = logits.shape[1]
    eos = live.sentence_boundary_ind
    samples = logits.argmax(dim=-1)
    fed = torch.cat([torch.full((1, b['n']), eos, dtype=torch.long), samples.permute(1, 0)[:steps - 1]], dim=0)
    xt = torch.from_numpy(padded).float() / 255.0
    tf = sut('forward', copy.deepcopy(pristine).forward, xt, fed.permute(1, 0)).permute(1, 0, 2)
    d = _maxdiff(tf, logits, tol)
    if d > tol:
        _viol(res, 'cache', 'stepwise-vs-teacher-forced-scores', 'run_ocr scores differ from the masked forward pass by %.3g' % d, k)
        return False
    return True


def execute(plan):
    torch = _torch()
    from pero_ocr.ocr_engine import transformer
    res = kernel.RunResult()
    log = kernel.EventLog()
    m = plan['model']
    stats = {}
    _WORST[0] = 0.0
    _ILL[0] = float(m.get('attn_gain', 1.0)) != 1.0
    if _ILL[0]:
        res.probe('peaked_attention_model')
    real_torch = transformer.torch._real if isinstance(transformer.torch, TorchProxy) else transformer.torch
    try:
        with quiet(), torch.no_grad():
            pristine = build_net(m)
            try:
                bias = _calibrate(pristine, m, plan)
            except SutRaised as e:
                _viol(res, 'termination', 'decode-raised|%s|%s' % (e.where, type(e.exc).__name__), str(e)[:300], -1)
                res.digest = log.digest()
                return res
            except kernel.StepCapExceeded:
                _viol(res, 'liveness', 'no-termination-within-cap', 'the calibration batch (boundary symbol suppressed) did not stop at the length cap', -1)
                res.digest = log.digest()
                return res
            
            log.add('model', 'built', [m['dim'], m['heads'], m['dec_layers'], m['max_seq_len'], round(bias, 4)])
            transformer.torch = TorchProxy(real_torch, plan['poison'], stats)
            live_net = copy.deepcopy(pristine)
            live = make_engine(live_net, m['nsym'])
            proj = live_net.dec_out_proj
            ctx = {'m': m, 'pristine': pristine, 'live': live, 'plan': plan}
            slack = m['max_seq_len'] - max(bb['w'] for bb in plan['batches']) // 4
            hist = []
            prev = None
            aborted_before = False
            held = None          # (scores tensor returned by an earlier batch, copy taken when it was returned)
            for k, b in enumerate(plan['batches']):
                if b.get('reload') is not None:
                    # switch checkpoints on the long-lived object (load_state_dict); references follow
                    m2 = dict(m, seed=int(b['reload']))
                    pristine = build_net(m2)
                    _calibrate(pristine, m2, plan)
                    live.net.load_state_dict({kk.replace('dec_out_proj.', 'dec_out_proj.inner.') if kk.startswith('dec_out_proj.') else kk: vv
                                              for kk, vv in pristine.state_dict().items()})
                    ctx['pristine'] = pristine
                    res.probe('weights_reloaded_into_live_model')
                    log.add('live', 'reload', b['reload'])
                x = batch_input(b, m['H'])
                cap_steps = b['w'] // 4 + 1
                proj.calls, proj.abort_at, proj.cap = 0, b.get('abort_at'), cap_steps + 3
                hist.append('%d:%d:%s' % (b['n'], b['w'], 'c' if b['cached'] else 'u'))
                if b.get('forced') is not None:
                    try:
                        ok = forced_prefix_batch(res, ctx, k, b, x, proj, log)
                    except SutRaised as e:
                        _viol(res, 'termination', 'decode-raised|%s|%s' % (e.where, type(e.exc).__name__), str(e)[:300], k)
                        ok = False
                    prev = b
                    if not ok:
                        break
                    continue
                if b.get('via') == 'process_lines_mixed':
                    ok = process_lines_mixed(res, ctx, k, b, proj, log)
                    prev = b
                    if not ok:
                        break
                    continue
                if b.get('via') == 'process_lines':
                    ok = process_lines_batch(res, ctx, k, b, x, proj, log)
                    prev = b
                    if not ok:
                        break
                    continue
                if b.get('via') == 'run_ocr':
                    ok = run_ocr_batch(res, ctx, k, b, x, proj, log)
                    prev = b
                    if not ok:
                        break
                    continue
                try:
                    outs, logits = sut('transcribe_batch', live.transcribe_batch, x, is_cached=b['cached'])
                except kernel.InjectedFault:
                    res.fault('abort_mid_batch')
                    log.add('live', 'aborted', [k, proj.calls])
                    aborted_before = True
                    prev = b
                    continue
                except SutRaised as e:
                    _viol(res, 'termination', 'decode-raised|%s|%s' % (e.where, type(e.exc).__name__), str(e)[:300], k)
                    break
                except kernel.StepCapExceeded:
                    _viol(res, 'liveness', 'no-termination-within-cap', 'decoding did not stop within %d steps for width %d' % (cap_steps + 3, b['w']), k)
                    break
                proj.abort_at = None
                if held is not None:
                    if held[0].shape != held[1].shape or not bool((held[0] == held[1]).all()):
                        _viol(res, 'cache', 'returned-scores-changed-later', 'the scores returned for an earlier batch changed when a later batch was decoded', k)
                        break
                    res.probe('earlier_scores_rechecked')
                held = (logits, logits.clone())
                log.add('live', 'batch', [k, b['n'], b['w'], b['cached'], logits.shape[1], kernel.sha(logits.numpy().round(2).tolist())])
                if aborted_before:
                    res.probe('batch_after_abort')
                    aborted_before = False
                if prev is not None and prev['n'] == b['n']:
                    res.probe('consecutive_equal_size_batches')
                    res.probe('consecutive_equal_size_and_width' if prev['w'] == b['w'] else 'equal_size_different_width')
                elif prev is not None:
                    res.probe('batch_size_change')
                prev = b
                try:
                    ok = check_batch(res, ctx, k, b, x, outs, logits)
                except SutRaised as e:
                    _viol(res, 'termination', 'decode-raised|%s|%s' % (e.where, type(e.exc).__name__), str(e)[:300], k)
                    ok = False
                except kernel.StepCapExceeded:
                    _viol(res, 'liveness', 'no-termination-within-cap', 'a reference decoding of width %d did not stop within the cap' % b['w'], k)
                    ok = False
                if not ok:
                    break
                res.states.append(kernel.sha([m['dim'], m['heads'], m['dec_layers'], slack, hist[-3:]]))
                if len(hist) >= 2 and res.probes.get('consecutive_equal_size_batches') and res.probes.get('lines_finish_at_different_steps'):
                    res.nontrivial = kernel.sha([m['dim'], m['heads'], m['dec_layers'], m['nsym'], hist])
    finally:
        transformer.torch = real_torch
    res.faults['allocations_poisoned_' + plan['poison']] = stats.get('allocations_poisoned', 0)
    res.info['max_diff_over_tol'] = round(_WORST[0], 4)
    res.digest = log.digest()
    res.sim_processes = 1
    res.excerpt = log.excerpt(20)
    return res


def shrink_candidates(plan):
    bs = plan['batches']
    for k in range(len(bs)):
        if len(bs) > 1:
            c = copy.deepcopy(plan)
            del c['batches'][k]
            yield c
    for k, b in enumerate(bs):
        if b.get('abort_at') is not None:
            c = copy.deepcopy(plan)
            del c['batches'][k]['abort_at']
            yield c
        if b['n'] > 1:
            c = copy.deepcopy(plan)
            c['batches'][k]['n'] = b['n'] - 1
            yield c
        if b['w'] > 16:
            c = copy.deepcopy(plan)
            c['batches'][k]['w'] = 16 if b['w'] <= 32 else b['w'] // 2 // 16 * 16
            yield c
        if b.get('dup'):
            c = copy.deepcopy(plan)
            del c['batches'][k]['dup']
            yield c
    m = plan['model']
    for key, simple in (('dec_layers', 1), ('heads', 1), ('nsym', 3), ('gain', 1.0)):
        if m[key] != simple:
            c = copy.deepcopy(plan)
            c['model'][key] = simple
            yield c
