#!/bin/bash
# usage: tools/with_patch.sh <patch.diff> <command...>
# Runs <command> with VERIF_REPO pointing at a scratch copy of /repo's working tree with the patch
# applied (under /dev/shm, removed afterwards).  /repo itself is never touched.
set -u
patch_file=$(readlink -f "$1"); shift
d=$(mktemp -d /dev/shm/verif-mut-XXXXXX)
cp -r /repo/pero_ocr /repo/user_scripts "$d"/
( cd "$d" && patch -p1 -s < "$patch_file" ) || { echo "patch failed"; rm -rf "$d"; exit 3; }
VERIF_REPO="$d" "$@"
rc=$?
rm -rf "$d"
exit $rc
