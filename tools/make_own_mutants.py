#!/venv/bin/python
"""Generates the hand-written sensitivity mutants (DESIGN.md section 5) as seeded/own-<id>/patch.diff
from (file, old text, new text) triples against /repo's current working tree."""
import difflib
import json
import os

REPO = '/repo'
OUT = '/verif/seeded'
M = [
 # ---------------------------------------------------------------- C17
 ('own-c17-no-logits-tracking', 'C17', 'user_scripts/parse_folder.py',
  "load_already_processed_files([output_xml_path, output_logit_path, output_render_path,\n                                                                output_alto_path])",
  "load_already_processed_files([output_xml_path, output_render_path,\n                                                                output_alto_path])",
  'logits folder dropped from the skip set', 'kill between the xml/render write and the logits write, then resume'),
 ('own-c17-union', 'C17', 'user_scripts/parse_folder.py',
  "already_processed = already_processed.intersection(files)", "already_processed = already_processed.union(files)",
  'union instead of intersection over output folders', 'kill after the first but before the last tracked output of a page, two or more tracked outputs requested'),
 ('own-c17-xml-after-alto', 'C17', 'user_scripts/parse_folder.py',
  None, None, 'PAGE XML written after ALTO (write order change)', 'n/a - order change alone keeps the property; must NOT be flagged'),
 ('own-c17-skip-filter-images-only', 'C17', 'user_scripts/parse_folder.py',
  "            ids_to_process = [id for id in ids_to_process if id not in already_processed_files]",
  "            ids_to_process = [id for id in ids_to_process if id not in already_processed_files or images_to_process is None]",
  'harmless-looking change (control: behaviour identical)', 'n/a - control mutant, must NOT be flagged'),
 ('own-c17-exists-skip', 'C17', 'user_scripts/parse_folder.py',
  "            if self.output_xml_path is not None:\n                page_layout.to_pagexml(",
  "            if self.output_xml_path is not None and not os.path.exists(os.path.join(self.output_xml_path, file_id + '.xml')):\n                page_layout.to_pagexml(",
  'existing PAGE XML is not rewritten (control: content is identical anyway)', 'n/a - control'),
 ('own-c17-sysexit-on-empty', 'C17', 'user_scripts/parse_folder.py',
  "    computator = Computator(page_parser,", "    if not ids_to_process:\n        sys.exit(3)\n\n    computator = Computator(page_parser,",
  'nothing-left run exits with status 3', 'a run with every page complete'),
 ('own-c17-ctl-alto-before-xml', 'C17', 'user_scripts/parse_folder.py',
  "            if self.output_xml_path is not None:\n                page_layout.to_pagexml(\n                    os.path.join(self.output_xml_path, file_id + '.xml'))\n",
  "            if self.output_alto_path is not None and self.output_logit_path is None:\n                page_layout.to_altoxml(os.path.join(self.output_alto_path, file_id + '.xml'))\n\n            if self.output_xml_path is not None:\n                page_layout.to_pagexml(\n                    os.path.join(self.output_xml_path, file_id + '.xml'))\n",
  'ALTO written (also) before PAGE XML when no logits are requested: a pure change of write order / a redundant write', 'n/a - control: order of tracked outputs is an implementation choice, must NOT be flagged'),
 # ---------------------------------------------------------------- C08
 ('own-c08-ctl-reset-at-end', 'C08', 'pero_ocr/document_ocr/page_parser.py',
  "        return page_layout\n\n    def decode_line(self, line):",
  "        self.last_h = None\n        self.last_line = None\n        return page_layout\n\n    def decode_line(self, line):",
  'decoder state additionally cleared at the end of a page', 'n/a - control: behaviour identical, must NOT be flagged'),
 ('own-c09-ctl-protocol', 'C09', 'pero_ocr/core/layout.py',
  "            pickle.dump(logits_dict, f, protocol=4)", "            pickle.dump(logits_dict, f, protocol=pickle.HIGHEST_PROTOCOL)",
  'file transport uses the highest pickle protocol', 'n/a - control: content identical, must NOT be flagged'),
 ('own-c20-ctl-zeros', 'C20', 'pero_ocr/ocr_engine/transformer.py',
  "            self.linear_cache = torch.empty((self.max_seq_len, batch_size, embedding_len * 3), device=query.device)",
  "            self.linear_cache = torch.zeros((self.max_seq_len, batch_size, embedding_len * 3), device=query.device)",
  'attention cache allocated zero-filled instead of uninitialised', 'n/a - control: behaviour identical, must NOT be flagged'),
 ('own-c08-no-last-h-reset', 'C08', 'pero_ocr/document_ocr/page_parser.py',
  "        self.last_h = None\n        self.last_line = None\n        for line in page_layout.lines_iterator():",
  "        self.last_line = None\n        for line in page_layout.lines_iterator():",
  'LM state not reset at page start', 'CARRY_H_OVER with LM and a second page on the same decoder instance'),
 ('own-c08-keep-lm-preds', 'C08', 'pero_ocr/decoding/decoders.py',
  "            lm_preds = self._lm.log_probs(h_prev)\n        else:  # just to have them defined",
  "            if init_h is None and getattr(self, '_cached_initial_preds', None) is not None:\n                lm_preds = self._cached_initial_preds\n            else:\n                lm_preds = self._lm.log_probs(h_prev)\n                if getattr(self, '_cached_initial_preds', None) is None:\n                    self._cached_initial_preds = lm_preds\n        else:  # just to have them defined",
  'initial LM predictions cached from the first call ever (which may have had a carried state)', 'first decoded line had init_h (carry-over), later line starts without'),
 ('own-c08-confident-keeps-h', 'C08', 'pero_ocr/document_ocr/page_parser.py',
  "            if line_confident_enough(logits, self.line_confidence_threshold):\n                self.last_h = None\n",
  "            if line_confident_enough(logits, self.line_confidence_threshold):\n",
  'confident line no longer clears carried LM state (within-page semantics change, not history dependence)', 'control for C08: result still depends only on the page'),
 # ---------------------------------------------------------------- C09
 ('own-c09-load-by-position', 'C09', 'pero_ocr/core/layout.py',
  "        for region in self.regions:\n            for line in region.lines:\n                if line.id not in logits_dict:\n                    continue\n                line.logits = logits_dict[line.id]",
  "        ordered = [k for k in logits_dict if k not in ('line_characters', 'logit_coords')]\n        for region in self.regions:\n            for line in region.lines:\n                if line.id not in logits_dict:\n                    continue\n                line.logits = logits_dict[ordered.pop(0)] if ordered else logits_dict[line.id]",
  'matrices associated by position in the file instead of by id', 'receiving layout whose line order/subset differs from the file (lost entry, extra line, other page)'),
 ('own-c09-floor', 'C09', 'pero_ocr/core/layout.py',
  "    def get_dense_logits(self, zero_logit_value: int = -80):", "    def get_dense_logits(self, zero_logit_value: int = -20):",
  'other floor value for pruned cells', 'any line with pruned cells'),
 ('own-c09-softmax-axis', 'C09', 'pero_ocr/core/layout.py',
  "    a = np.logaddexp.reduce(x, axis=1)[:, np.newaxis]\n    return x - a", "    a = np.logaddexp.reduce(x, axis=0)[np.newaxis, :]\n    return x - a",
  'log-softmax over the wrong axis', 'any non-square / multi-frame matrix'),
 ('own-c09-missing-ok-default', 'C09', 'pero_ocr/core/layout.py',
  "    def save_logits(self, file_name: str, missing_line_logits_ok=False):", "    def save_logits(self, file_name: str, missing_line_logits_ok=True):",
  'missing components saved silently by default', 'a line lacking logits/characters/coords at save time'),
 ('own-c09-charset-first-line', 'C09', 'pero_ocr/core/layout.py',
  "            characters += [(line.id, line.characters) for line in region.lines]",
  "            characters += [(line.id, region.lines[0].characters) for line in region.lines]",
  'character table taken from the first line of the region', 'lines of one region with different character tables (legacy reload + fresh OCR) - unusual'),
 ('own-c09-coords-swapped', 'C09', 'pero_ocr/core/layout.py',
  "                line.logit_coords = logit_coords[line.id]", "                line.logit_coords = list(logit_coords[line.id])[::-1]",
  'frame window bounds swapped on load', 'any load'),
 # ---------------------------------------------------------------- C20
 ('own-c20-stale-cross-cache', 'C20', 'pero_ocr/ocr_engine/transformer.py',
  "        if self.linear_cache is None or seq_len == 1:\n            # shape: [seq, batch, embedding_len * 3]",
  "        if self.linear_cache is None or self.linear_cache.shape[1] != batch_size:\n            # shape: [seq, batch, embedding_len * 3]",
  'caches re-allocated only when the batch size changes (stale cross-attention keys)', 'a batch following another one of the same size'),
 ('own-c20-no-memory-reset', 'C20', 'pero_ocr/ocr_engine/transformer.py',
  "        if self.memory_tgt is not None and self.memory_tgt.shape[1] != tgt.shape[1]:\n            self.memory_tgt = None",
  "        if self.memory_tgt is not None and self.memory_tgt.shape[1] < tgt.shape[1]:\n            self.memory_tgt = None",
  'layer memory only reset when the batch grows', 'a smaller batch after a larger one'),
 ('own-c20-self-attn-short', 'C20', 'pero_ocr/ocr_engine/transformer.py',
  "            k, v = self.linear_cache[:seq_len, :, embedding_len:].chunk(2, axis=-1)",
  "            k, v = self.linear_cache[:max(1, seq_len - 1), :, embedding_len:].chunk(2, axis=-1)",
  'self-attention over the prefix without the current step', 'any prefix of length >= 2'),
 ('own-c20-no-length-cap', 'C20', 'pero_ocr/ocr_engine/transformer_ocr_engine.py',
  "            if len(partial_transcripts) > inputs.shape[-1] // 4:", "            if len(partial_transcripts) > inputs.shape[-1]:",
  'length cap four times too generous', 'a line that never emits the boundary symbol'),
 ('own-c20-boundary-not-stripped', 'C20', 'pero_ocr/ocr_engine/transformer_ocr_engine.py',
  "                if s == sentence_boundary_ind:\n                    break\n                elif s == ignore_ind:\n                    continue",
  "                if s == sentence_boundary_ind:\n                    break",
  'ignore symbol not stripped from outputs', 'a line whose arg-max hits the ignore class'),
 ('own-c20-alive-mask-reset', 'C20', 'pero_ocr/ocr_engine/transformer_ocr_engine.py',
  "            alive_mask *= surviving_lines", "            alive_mask = surviving_lines.long()",
  'a finished line comes back to life when it later emits a non-boundary symbol (equivalent mutant: only costs extra steps inside the cap)',
  'n/a - control: scores up to each line\'s end, transcriptions and termination are unchanged, must NOT be flagged'),
]


def main():
    made = []
    for mid, prop, path, old, new, summary, needs in M:
        if old is None:
            continue
        src = open(os.path.join(REPO, path)).read()
        if src.count(old) != 1:
            print('SKIP %s: anchor found %d times' % (mid, src.count(old)))
            continue
        dst = src.replace(old, new)
        diff = ''.join(difflib.unified_diff(src.splitlines(True), dst.splitlines(True), 'a/' + path, 'b/' + path))
        d = os.path.join(OUT, mid)
        os.makedirs(d, exist_ok=True)
        with open(os.path.join(d, 'patch.diff'), 'w') as f:
            f.write(diff)
        meta = {'id': mid, 'property': prop, 'origin': 'hand-written sensitivity mutant (DESIGN.md section 5)',
                'summary': summary, 'needs_to_manifest': needs, 'files': [path],
                'control': 'control' in needs or 'must NOT' in needs}
        mp = os.path.join(d, 'meta.json')
        if os.path.exists(mp):
            old_meta = json.load(open(mp))
            for k in ('ran', 'caught_by', 'result'):
                if k in old_meta:
                    meta[k] = old_meta[k]
        json.dump(meta, open(mp, 'w'), indent=1)
        made.append(mid)
    print('wrote', len(made), 'mutants')


if __name__ == '__main__':
    main()
