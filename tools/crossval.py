#!/venv/bin/python
"""Cross-validates the in-process restart model against real process death (DESIGN.md 2.7):
each sampled C17 plan is executed twice - simulated processes inside one interpreter, and every
simulated process as a fresh interpreter killed with os._exit(137) at the same write seam - and
the event-log digests, violation signatures and probes must agree.

usage: tools/crossval.py [count=16] [seed=7] [--pool]
--pool additionally runs uninterrupted pool plans with the real multiprocessing.Pool and compares
the final trees with SimPool's."""
import concurrent.futures as cf
import json
import os
import sys
import time

sys.path.insert(0, '/verif/checks')
sys.path.insert(0, '/verif')
import harness  # noqa

harness.ensure_pinned_env()
harness.install_repo_on_path()
harness.silence_logging()


def one(args):
    seed, index = args
    import c17
    from sim import resume, realproc
    plan = c17.gen_plan(seed, 'quick', index)
    if plan.get('enumerate'):                 # take one kill point of the enumeration
        plan = dict(plan, enumerate=False, layer='A1')
        plan['runs'] = [dict(plan['runs'][0], crash_at=index % (resume.total_writes(plan) + 1))]
    a = resume.execute(plan)
    b = resume.execute(plan, world_cls=realproc.RealProcWorld)
    return {'index': index, 'mode': plan['mode'], 'procs': plan['procs'], 'crashes': [r.get('crash_at') for r in plan['runs']],
            'sim_digest': a.digest, 'real_digest': b.digest,
            'sim_violations': sorted(v.signature for v in a.violations), 'real_violations': sorted(v.signature for v in b.violations),
            'real_processes': b.faults.get('real_process_spawned', 0), 'real_kills': b.faults.get('real_process_death_os_exit_137', 0),
            'agree': a.digest == b.digest and sorted(v.signature for v in a.violations) == sorted(v.signature for v in b.violations)}


def one_pool(args):
    """Uninterrupted pool run: SimPool (in-process) vs the real multiprocessing.Pool in a fresh interpreter."""
    seed, index = args
    import c17
    from sim import kernel, pfworld, realproc, resume
    plan = c17.gen_plan(seed, 'quick', index)
    plan = dict(plan, enumerate=False)
    snaps = []
    for cls, real in ((pfworld.PfWorld, False), (realproc.RealProcWorld, True)):
        w = cls(plan, kernel.RunResult(), kernel.EventLog())
        w.real_pool = real
        try:
            w.setup_inputs()
            w.install()
            proc = w.simulate_process(os.path.join(w.root, 'out'), dict(plan['resume'], crash_at=None))
            snaps.append((proc.exit, pfworld.snapshot(os.path.join(w.root, 'out'))))
        finally:
            w.uninstall()
            w.cleanup()
    return {'index': index, 'mode': plan['mode'], 'procs': plan['procs'], 'pages': len(plan['pages']), 'files': len(snaps[0][1]),
            'agree': snaps[0] == snaps[1], 'exits': [snaps[0][0], snaps[1][0]]}


def main():
    args = [a for a in sys.argv[1:] if not a.startswith('--')]
    count = int(args[0]) if args else 16
    seed = int(args[1]) if len(args) > 1 else 7
    import c17
    c17.warmup()
    t0 = time.time()
    idx = [i for i in range(0, 4000) if c17.gen_plan(seed, 'quick', i)['procs'] == 1][:count]
    with cf.ProcessPoolExecutor(max_workers=min(16, count)) as ex:
        rows = list(ex.map(one, [(seed, i) for i in idx]))
    bad = [r for r in rows if not r['agree']]
    out = {'compared': len(rows), 'disagreements': len(bad), 'real_processes': sum(r['real_processes'] for r in rows),
           'real_kills': sum(r['real_kills'] for r in rows), 'wall_s': round(time.time() - t0, 1), 'rows': rows}
    if '--pool' in sys.argv:
        pidx = [i for i in range(0, 4000) if c17.gen_plan(seed, 'quick', i)['procs'] > 1][:count]
        with cf.ProcessPoolExecutor(max_workers=min(8, count)) as ex:
            prow = list(ex.map(one_pool, [(seed, i) for i in pidx]))
        pbad = [r for r in prow if not r['agree']]
        out['real_pool'] = {'compared': len(prow), 'disagreements': len(pbad), 'rows': prow}
        print('cross-validation of SimPool against multiprocessing.Pool (uninterrupted runs): %d plans, %d disagreements' % (len(prow), len(pbad)))
        for r in pbad[:5]:
            print('DISAGREE', r)
        bad = bad + pbad
    os.makedirs('/verif/crossval', exist_ok=True)
    json.dump(out, open('/verif/crossval/realproc.json', 'w'), indent=1)
    print('cross-validation against real process death: %d plans, %d real processes, %d real kills, %d disagreements, %.0fs' % (
        len(rows), out['real_processes'], out['real_kills'], len(bad), out['wall_s']))
    for r in bad[:5]:
        print('DISAGREE', r)
    return 2 if bad else 0


if __name__ == '__main__':
    sys.exit(main())
