#!/bin/bash
# usage: tools/soak.sh <tier> <seed...>   - runs every check for each seed; evidence/replays go to a scratch dir.
# Prints one line per (property, seed); any VIOLATION / harness error on the unchanged tree is a bug to triage.
tier=$1; shift
out=${SOAK_OUT:-/dev/shm/verif-soak}
mkdir -p $out
for seed in "$@"; do
  for p in C17 C09 C08 C20; do
    VERIF_SEED=$seed VERIF_REPLAY_DIR=$out/replays VERIF_EVIDENCE_DIR=$out/evidence-$seed /venv/bin/python "$(dirname "$0")/../checks/run.py" $p $tier 2>&1 | grep -E "seed=|VIOLATION|signature=|HARNESS|NONDET|KNOWN" | cut -c1-400
  done
done
