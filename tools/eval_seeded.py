#!/venv/bin/python
"""Runs the quick check of the property each seeded change breaks against a scratch copy of /repo with
the change applied (tools/with_patch.sh; /repo itself is untouched) and records which are caught.

usage: tools/eval_seeded.py [--tier quick] [--runs N] [id ...]     (default: every seeded/<id>)"""
import json
import os
import subprocess
import sys
import time

V = '/verif'


def main():
    args = sys.argv[1:]
    runs = None
    tier = 'quick'
    if '--runs' in args:
        i = args.index('--runs')
        runs = args[i + 1]
        del args[i:i + 2]
    if '--tier' in args:
        i = args.index('--tier')
        tier = args[i + 1]
        del args[i:i + 2]
    ids = args or sorted(d for d in os.listdir(V + '/seeded') if os.path.exists('%s/seeded/%s/patch.diff' % (V, d)))
    results_path = V + '/seeded/RESULTS.json'
    results = json.load(open(results_path)) if os.path.exists(results_path) else {}
    scratch = '/dev/shm/verif-eval-%d' % os.getpid()
    for mid in ids:
        meta = json.load(open('%s/seeded/%s/meta.json' % (V, mid)))
        prop = meta['property']
        rdir = scratch + '/replays-' + mid
        env = dict(os.environ, VERIF_SELFTEST='0', VERIF_REPLAY_DIR=rdir, VERIF_EVIDENCE_DIR=scratch + '/evidence')
        if runs:
            env['VERIF_RUNS'] = runs
        t0 = time.time()
        p = subprocess.run([V + '/tools/with_patch.sh', '%s/seeded/%s/patch.diff' % (V, mid), '/venv/bin/python',
                            V + '/checks/run.py', prop, tier], capture_output=True, text=True, env=env)
        sigs = [ln.split('signature=')[1].split(' occurrences')[0] for ln in p.stdout.splitlines() if 'signature=' in ln]
        summary = [ln for ln in p.stdout.splitlines() if ln.startswith(prop + ' ' + tier)]
        results[mid] = {'property': prop, 'check': '%s %s%s' % (prop, tier, ' VERIF_RUNS=' + runs if runs else ''),
                        'exit': p.returncode, 'caught': p.returncode == 1, 'signatures': sigs[:8],
                        'control': bool(meta.get('control')), 'wall_s': round(time.time() - t0, 1),
                        'summary': summary[-1] if summary else p.stdout[-300:] + p.stderr[-300:]}
        # keep the first minimised failing plan next to the seeded change (replays only against the patched tree)
        first = [ln.split('replay=')[1].strip() for ln in p.stdout.splitlines() if ln.startswith('VIOLATION') and 'replay=' in ln]
        if first and os.path.exists(first[0]):
            import shutil
            shutil.copy(first[0], '%s/seeded/%s/replay.json' % (V, mid))
            results[mid]['replay'] = 'seeded/%s/replay.json' % mid
        print('%-40s %s exit=%d %s %s' % (mid, prop, p.returncode, 'CAUGHT' if p.returncode == 1 else ('clean' if p.returncode == 0 else 'HARNESS-ERROR'), sigs[:3]))
        sys.stdout.flush()
        json.dump(results, open(results_path, 'w'), indent=1, sort_keys=True)
    subprocess.run(['rm', '-rf', scratch])


if __name__ == '__main__':
    main()
