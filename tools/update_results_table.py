#!/venv/bin/python
"""Regenerates the sensitivity table in DESIGN.md (section 5) from seeded/RESULTS.json."""
import json
import re

r = json.load(open('/verif/seeded/RESULTS.json'))
rows = ['### 5.1 Results (from seeded/RESULTS.json)', '',
        '| seeded change | property | what it does | needs | check | outcome | violation signatures |',
        '|---|---|---|---|---|---|---|']
n_caught = n_mut = n_ctrl_clean = n_ctrl = n_oos = 0
for k in sorted(r):
    v = r[k]
    try:
        meta = json.load(open('/verif/seeded/%s/meta.json' % k))
    except Exception:
        meta = {}
    ctrl = bool(meta.get('control'))
    if meta.get('out_of_scope'):
        n_oos += 1
        outcome = ('not caught' if v['exit'] == 0 else 'caught') + ' (outside the fault model: %s)' % meta['out_of_scope'][:90]
    elif ctrl:
        n_ctrl += 1
        n_ctrl_clean += v['exit'] == 0
        outcome = 'clean (control: must not be flagged)' if v['exit'] == 0 else 'FLAGGED (control!)'
    else:
        n_mut += 1
        n_caught += bool(v['caught'])
        outcome = 'caught' if v['caught'] else ('MISSED' if v['exit'] == 0 else 'harness error')
    rows.append('| %s | %s | %s | %s | %s | %s | %s |' % (
        k, v['property'], str(meta.get('summary', '')).replace('|', '/')[:160], str(meta.get('needs_to_manifest', '')).replace('|', '/')[:160],
        v['check'], outcome, ', '.join('`%s`' % s for s in v['signatures'][:3])))
rows += ['', 'Totals: %d of %d property-breaking changes caught by the quick tier; %d of %d controls clean; %d change(s) outside the fault model.' % (n_caught, n_mut, n_ctrl_clean, n_ctrl, n_oos), '']
s = open('/verif/DESIGN.md').read()
s = re.sub(r'<!-- RESULTS-TABLE-BEGIN -->.*?<!-- RESULTS-TABLE-END -->',
           lambda m: '<!-- RESULTS-TABLE-BEGIN -->\n' + '\n'.join(rows) + '\n<!-- RESULTS-TABLE-END -->', s, flags=re.S)
open('/verif/DESIGN.md', 'w').write(s)
print('\n'.join(rows[-2:]))
