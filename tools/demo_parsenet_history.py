#!/venv/bin/python
"""Demonstration (not a registered check): the CNN layout stage keeps its adaptive downsample factor from
page to page (TorchParseNet.last_downsample), so the resolution at which a page is analysed - and with it
the detected layout - depends on the page processed before.  Real TorchParseNet code, stub network.

The LAYOUT_CNN stage needs a trained model, so it is outside the configurations the C08 check exercises;
this script only documents the observation made while reading the code."""
import os
import sys
import tempfile

import numpy as np
import torch

sys.path.insert(0, os.environ.get('VERIF_REPO', '/repo'))
from pero_ocr.layout_engines.torch_parsenet import TorchParseNet  # noqa: E402


class StubNet(torch.nn.Module):
    """Marks the bottom row of every dark bar as baseline (channel 2) and reports the bar height above it
    (channel 0), both measured in pixels of the (downsampled) input - what a trained ParseNet estimates."""

    def forward(self, x):
        dark = (x.mean(dim=1, keepdim=True) < 0.5).float()                    # N,1,H,W
        below = torch.nn.functional.pad(dark[:, :, 1:, :], (0, 0, 0, 1))
        base = dark * (1.0 - below)
        run = torch.zeros_like(dark)
        acc = torch.ones_like(dark)
        for k in range(64):
            shifted = torch.nn.functional.pad(dark, (0, 0, k, 0))[:, :, :dark.shape[2], :]
            acc = acc * shifted
            run = run + acc
        zeros = torch.zeros_like(dark)
        return torch.cat([run * base, zeros + 1.0, base, zeros, zeros], dim=1), zeros


def page(bar_height):
    img = np.full((600, 400, 3), 255, dtype=np.uint8)
    for j in range(4):
        y = 100 + 130 * j
        img[y - bar_height:y, 40:360] = 0
    return img


def main():
    d = tempfile.mkdtemp()
    path = os.path.join(d, 'parsenet.pt')
    torch.jit.script(StubNet()).save(path + '.cpu')
    dev = torch.device('cpu')
    a, b = page(96), page(80)
    alone = TorchParseNet(path, dev).get_maps_with_optimal_resolution(b)[1]
    net = TorchParseNet(path, dev)
    net.get_maps_with_optimal_resolution(a)
    after = net.get_maps_with_optimal_resolution(b)[1]
    print('page B analysed alone at downsample %.3f, after page A at downsample %.3f' % (alone, after))
    print('history dependent' if abs(alone - after) > 1e-6 else 'no difference')
    return 0


if __name__ == '__main__':
    sys.exit(main())
