#!/usr/bin/env python3
"""Validate MANIFEST.json and every evidence file against the schemas (run with python3-vt)."""
import glob
import json
import sys

import jsonschema

ok = True
m = json.load(open('/verif/MANIFEST.json'))
jsonschema.validate(m, json.load(open('/root/.vp/MANIFEST.schema.json')))
print('MANIFEST.json valid: %d checks, %d not applicable' % (len(m['checks']), len(m.get('not_applicable', []))))
sch = json.load(open('/root/.vp/EVIDENCE.schema.json'))
for f in sorted(glob.glob('/verif/evidence/*.json')):
    e = json.load(open(f))
    try:
        jsonschema.validate(e, sch)
        c = e['coverage']
        print('%s valid: tier=%s evaluations=%d distinct_nontrivial=%d violations=%s wall=%.0fs' % (
            f, e['tier'], c['evaluations'], c['distinct_nontrivial'], e.get('violations'), e['wall_s']))
    except jsonschema.ValidationError as ex:
        ok = False
        print('%s INVALID: %s' % (f, ex.message))
sys.exit(0 if ok else 1)
