#!/venv/bin/python
"""Confirms a sub-agent's seeded change in a fresh scratch worktree of /repo and, if everything holds,
keeps it as /verif/seeded/<id>/ (patch.diff, demo.py, meta.json).

  demo passes on the clean tree, fails with the patch, the existing test suite still gives 217 passed.

usage: tools/confirm_seeded.py <source dir with patch.diff demo.py meta.json> <id>"""
import json
import os
import shutil
import subprocess
import sys


def run(cmd, cwd=None, env=None, timeout=900):
    p = subprocess.run(cmd, cwd=cwd, env=env, capture_output=True, text=True, timeout=timeout)
    return p.returncode, p.stdout + p.stderr


def main():
    src, mid = sys.argv[1], sys.argv[2]
    wt = '/tmp/wtc-%s' % mid
    run(['git', '-C', '/repo', 'worktree', 'remove', '--force', wt])
    rc, out = run(['git', '-C', '/repo', 'worktree', 'add', '--detach', wt, 'HEAD'])
    assert rc == 0, out
    env = dict(os.environ, PYTHONPATH='%s:%s/user_scripts' % (wt, wt), DEMO_TREE=wt, OMP_NUM_THREADS='2')
    res = {}
    try:
        rc, out = run(['/venv/bin/python', os.path.join(src, 'demo.py')], cwd=wt, env=env)
        res['demo_clean_rc'] = rc
        res['demo_clean_tail'] = out[-300:]
        rc, out = run(['git', 'apply', os.path.join(src, 'patch.diff')], cwd=wt)
        res['apply_rc'] = rc
        if rc == 0:
            rc, out = run(['/venv/bin/python', os.path.join(src, 'demo.py')], cwd=wt, env=env)
            res['demo_patched_rc'] = rc
            res['demo_patched_tail'] = out[-400:]
            rc, out = run(['/venv/bin/python', '-m', 'pytest', '-q', '-p', 'no:cacheprovider', 'test'], cwd=wt,
                          env=dict(os.environ, PYTHONPATH=wt))
            res['tests_tail'] = out.strip().splitlines()[-1] if out.strip() else ''
    finally:
        run(['git', '-C', '/repo', 'worktree', 'remove', '--force', wt])
        shutil.rmtree(wt, ignore_errors=True)
    ok = (res.get('demo_clean_rc') == 0 and res.get('apply_rc') == 0 and res.get('demo_patched_rc', 0) != 0
          and '217 passed' in res.get('tests_tail', ''))
    res['confirmed'] = ok
    print(mid, 'CONFIRMED' if ok else 'REJECTED', {k: v for k, v in res.items() if not k.endswith('_tail')}, res.get('tests_tail'))
    if ok:
        dst = '/verif/seeded/%s' % mid
        os.makedirs(dst, exist_ok=True)
        shutil.copy(os.path.join(src, 'patch.diff'), dst)
        shutil.copy(os.path.join(src, 'demo.py'), dst)
        meta = json.load(open(os.path.join(src, 'meta.json')))
        meta['id'] = mid
        meta['origin'] = 'independent sub-agent given only the property text and a scratch worktree'
        meta['confirmed'] = {'demo_on_clean_tree': 'exit 0', 'demo_with_patch': 'exit %s' % res['demo_patched_rc'],
                             'test_suite_with_patch': res['tests_tail'], 'demo_output_with_patch_tail': res['demo_patched_tail'][-300:]}
        json.dump(meta, open(os.path.join(dst, 'meta.json'), 'w'), indent=1)
    else:
        print(json.dumps(res, indent=1)[:1500])
    return 0 if ok else 1


if __name__ == '__main__':
    sys.exit(main())
