"""C08 - a page's result does not depend on processing history or schedule."""
from sim import decworld, pipeline

PROP = 'C08'
LEVEL = 'exploration'
TIERS = {
    'quick': {'runs': 3200, 'wall_per_run': 120},
    'thorough': {'runs': 160000, 'wall_per_run': 120, 'selftest': 400},
}
REQUIRED_PROBES = ['instance_processed_2plus_pages_with_lm_carry', 'page_after_predecessor',
                   'fault_swallowed_then_later_page_compared', 'multi_page_run_with_lm_carry', 'scenario_pool',
                   'scenario_crash', 'scenario_seq', 'scenario_oom', 'pool_chunk_with_2plus_pages',
                   'page_failed_by_injected_oom_later_pages_compared', 'same_layout_object_processed_again', 'cnn_layout_stage_adaptive',
                   'cnn_layout_stage_fixed_resolution']
RULE = ('plans = seeded histories of 2-10 operations (process page / pickle round trip / restart / injected '
        'transient LM exception / line without logits) on up to 3 long-lived PageParser instances over 2-5 '
        'generated pages, decoder knobs randomised per plan; non-trivial = an instance that had already '
        'processed a page decoded a further non-empty page with LM and carry-over and that page was compared '
        'with its page-alone reference; distinct = distinct (decoder configuration, history shape)')
DISTINCT_MEASURE = 'distinct (decoder configuration hash, PageDecoder carried state [last_h set?, last_line]) after a page'
COMPONENTS_REAL = ['PageParser', 'page_decoder_factory', 'PageDecoder', 'decoder_factory',
                   'CTCPrefixLogRawNumpyDecoder', 'GreedyDecoder', 'LMWrapper', 'HiddenState', 'BagOfHypotheses',
                   'TextLine.get_full_logprobs', 'PageParser.update_confidences/filter_confident_lines',
                   'pickle round trip of the whole PageParser (what Pool does per chunk)',
                   'parse_folder.main, LineCropper, PageOCR + PytorchEngineLineOCR, LinePostprocessor, TextlineExtractorSimple, LayoutExtractor + LayoutEngine + TorchParseNet (layer B)']
COMPONENTS_STUB = ['trained language model -> sim.toylm seeded LSTM (history dependent, tuple state)',
                   'OCR network output -> generated sparse logits (sim.content) / TorchScript colour classifier (sim.stubocr)',
                   'ParseNet of the CNN layout stage -> TorchScript image-operation stub (sim.cnnstub)', 'time module -> SimClock']
ASSUMPTIONS = ['the toy LSTM stands in for a trained brnolm model (same interface, same state shape)',
               'pages are compared through (line id, transcription, transcription_confidence)',
               'sampling, not proof: a clean batch is evidence only']


def warmup():
    import torch
    torch.set_num_threads(1)
    import pero_ocr.document_ocr.page_parser  # noqa
    import cv2
    cv2.setNumThreads(1)
    import parse_folder  # noqa
    from sim import pfworld
    pfworld.assert_pool_model()
    decworld.execute(decworld.gen_plan(0, 'warm', 0))
    pipeline.execute_c08b(pipeline.gen_plan_c08b(0, 'warm', 0))
    pipeline.execute_c08b(pipeline.gen_plan_c08b(0, 'warm', 3))


LAYER_B_EVERY = 8       # every 8th plan is a whole-parse_folder (pfworld) plan


def gen_plan(seed, tier, index):
    if index % LAYER_B_EVERY == LAYER_B_EVERY - 1:
        return pipeline.gen_plan_c08b(seed, tier, index)
    return decworld.gen_plan(seed, tier, index)


def execute(plan):
    return pipeline.execute_c08b(plan) if plan['world'] == 'pf8' else decworld.execute(plan)


def shrink_candidates(plan):
    return pipeline.shrink_c08b(plan) if plan['world'] == 'pf8' else decworld.shrink_candidates(plan)


def evidence_extra(records):
    inter = set()
    for r in records.values():
        inter.update(r.get('res', {}).get('info', {}).get('interleavings', []))
    return {'distinct_pool_interleavings': {'count': len(inter), 'measure': 'distinct (task count, workers, sequence of workers given the baton at seams) per pool run'}}
