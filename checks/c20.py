"""C20 - cached transformer decoding equals recomputation, per line and per batch."""
from sim import trworld

PROP = 'C20'
LEVEL = 'exploration'
TIERS = {
    'quick': {'runs': 1600, 'wall_per_run': 180},
    'thorough': {'runs': 24000, 'wall_per_run': 180, 'selftest': 200},
}
REQUIRED_PROBES = ['consecutive_equal_size_batches', 'consecutive_equal_size_and_width', 'equal_size_different_width',
                   'batch_size_change', 'lines_finish_at_different_steps', 'line_hit_length_cap',
                   'line_finished_immediately', 'batch_after_abort', 'lines_checked_alone', 'run_ocr_centre_padded', 'forced_prefix_batches', 'huge_batch_checked', 'peaked_attention_model', 'weights_reloaded_into_live_model',
                   'earlier_scores_rechecked', 'process_lines_pages', 'process_lines_mixed_width_pages']
RULE = ('plans = a seeded random-weight model (1-3 decoder layers, 1-4 heads, width 8-32, max_seq_len exactly at '
        'or far above the length cap) and a history of 2-8 batches decoded on the SAME model instance (batch size '
        '1-5, width 16-160 px, cached or uncached, optional injected abort at a step, optional duplicated line; 6 % of plans go through run_ocr with its centre padding to 1088 px) '
        'under an allocator whose empty() returns NaN or seeded garbage; non-trivial = the history contains two '
        'consecutive batches of equal batch size and a batch whose lines finish at different steps; distinct = '
        'distinct (model shape, batch history)')
DISTINCT_MEASURE = 'distinct (model shape, slack of max_seq_len over the cap, last three batches [size:width:cached]) when a batch is checked'
COMPONENTS_REAL = ['TransformerOCR.forward/encode/get_mask', 'LineSelfAttentionEncoder', 'Decoder.infer',
                   'DecoderLayer.infer', 'CustomMultiheadAttention.cached_forward', 'PositionalEncoding',
                   'TransformerEngineLineOCR.transcribe_batch/postprocess_decoded/decode']
COMPONENTS_STUB = ['convolutional front-end (stock one downloads VGG weights) -> seeded strided convolution + squeeze',
                   'trained weights -> seeded random weights with calibrated end-of-sentence bias',
                   'torch.empty inside pero_ocr.ocr_engine.transformer -> poisoned allocator',
                   'TransformerEngineLineOCR.__init__ (weight loading) is bypassed']
ASSUMPTIONS = ['score agreement is asserted to max(1e-3, 1.5e-4 * largest score magnitude of the batch); the largest observed difference is reported in the evidence',
               'symbol-level comparisons are waived for a batch with an arg-max margin below 4e-3 (near tie); score comparisons never are',
               'CPU float32, single-threaded torch', 'sampling, not proof']


def warmup():
    import torch
    torch.set_num_threads(1)
    trworld.execute(trworld.gen_plan(0, 'warm', 0))


gen_plan = trworld.gen_plan
execute = trworld.execute
shrink_candidates = trworld.shrink_candidates


def evidence_extra(records):
    worst = [r['res']['info'].get('max_diff_over_tol', 0.0) for r in records.values() if 'res' in r]
    worst.sort()
    n = len(worst)
    return {'score_agreement': {'tolerance': 'max(1e-3, 1.5e-4 * max|score| of the batch)',
                                'largest_observed_difference_as_fraction_of_tolerance': worst[-1] if worst else None,
                                'p99': worst[int(n * 0.99)] if n else None, 'median': worst[n // 2] if n else None}}
