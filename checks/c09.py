"""C09 - saved logits restore exactly; saved artefacts suffice to rebuild outputs."""
from sim import logworld, pipeline

PROP = 'C09'
LEVEL = 'exploration'
TIERS = {
    'quick': {'runs': 6400, 'wall_per_run': 180},
    'thorough': {'runs': 120000, 'wall_per_run': 180, 'selftest': 400},
}
REQUIRED_PROBES = ['lines_restored', 'line_with_stored_and_pruned_cells', 'lost_entry_met',
                   'line_absent_from_file_left_untouched', 'missing_component_reported', 'redecoded_nonempty_page',
                   'stage2_redecoded_line_with_stored_and_pruned_cells', 'load_over_already_densified_layout', 'artefacts_written_by_library_code', 'consumer_met_xml_without_logits', 'stage2_killed']
RULE = ('plans = seeded operation sequences over a two-artefact store (PAGE XML + logits, file or bytes transport): '
        'save / corrupt stored artefact (entries lost, foreign entries, legacy format) / restart (objects dropped) / '
        'load into a layout rebuilt from the stored PAGE XML (optionally with extra lines, or another page, or a '
        'stripped copy) / re-decode + ALTO export by a long-lived consumer; 40 % of plans are fault free; '
        'non-trivial = a consumer re-decoded a non-empty page from stored artefacts and it was compared with the '
        'original in-memory layout; distinct = distinct (decoder configuration, page content, operation shape)')
DISTINCT_MEASURE = 'distinct (page content, load target kind, set of lost line entries) at a load'
COMPONENTS_REAL = ['PageLayout.to_pagexml_string/from_pagexml_string', 'PageLayout._gen_logits/save_logits/save_logits_bytes/load_logits',
                   'TextLine.get_dense_logits/get_full_logprobs/log_softmax', 'PageLayout.to_altoxml_string (+ force alignment, confidences)',
                   'PageParser/PageDecoder/decoders/LMWrapper as the consumer']
COMPONENTS_STUB = ['OCR network output -> generated sparse logits (sim.content, sparsified exactly like the engine)',
                   'language model -> sim.toylm', 'process boundary -> dropping every Python object, only stored bytes / files survive']
ASSUMPTIONS = ['no stored logit is exactly 0.0 (as in the property)', 'ALTO text = sequence of String/@CONTENT per TextLine',
               'lines whose stored entry was lost by an injected fault are exempt from re-decoding equality but must be left untouched',
               'ALTO text is not compared for injected legacy-format files (no character table)']


def warmup():
    import torch
    torch.set_num_threads(1)
    import cv2
    cv2.setNumThreads(1)
    import parse_folder  # noqa
    from sim import pfworld
    pfworld.assert_pool_model()
    logworld.execute(logworld.gen_plan(0, 'warm', 0))
    logworld.execute(logworld.gen_plan(0, 'warm', 1))
    pipeline.execute_c09b(pipeline.gen_plan_c09b(0, 'warm', 0))
    pipeline.execute_c09b(pipeline.gen_plan_c09b(0, 'warm', 1))


LAYER_B_EVERY = 5       # every 5th plan is the two-process parse_folder pipeline (pfworld)


def gen_plan(seed, tier, index):
    if index % LAYER_B_EVERY == LAYER_B_EVERY - 1:
        return pipeline.gen_plan_c09b(seed, tier, index)
    return logworld.gen_plan(seed, tier, index)


def execute(plan):
    return pipeline.execute_c09b(plan) if plan['world'] == 'pf9' else logworld.execute(plan)


def shrink_candidates(plan):
    return pipeline.shrink_c09b(plan) if plan['world'] == 'pf9' else logworld.shrink_candidates(plan)
