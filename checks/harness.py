"""Generic driver: seeded batch of simulated runs on all cores, violation
minimisation, replay files, known findings, probes, evidence.

A *check module* provides:
  PROP, LEVEL, TIERS{tier:{'runs':N,...}}, REQUIRED_PROBES, RULE, COMPONENTS_REAL,
  COMPONENTS_STUB, ASSUMPTIONS, DISTINCT_MEASURE
  warmup()                       import the code under test, warm JITs (parent, before fork)
  gen_plan(seed, tier, index)    -> plan (pure data)
  execute(plan)                  -> kernel.RunResult   (pure function of plan + code under test)
  shrink_candidates(plan)        -> iterable of simpler plans
"""
import faulthandler
import json
import multiprocessing
import os
import signal
import subprocess
import sys
import time
import traceback

VERIF = os.path.dirname(os.path.dirname(os.path.abspath(__file__)))
sys.path.insert(0, VERIF)

from sim import kernel  # noqa: E402

MAX_REPORTED = 5

PINNED_ENV = {
    'PYTHONHASHSEED': '0', 'OMP_NUM_THREADS': '1', 'MKL_NUM_THREADS': '1',
    'OPENBLAS_NUM_THREADS': '1', 'NUMBA_NUM_THREADS': '1', 'NUMEXPR_NUM_THREADS': '1',
    'VERIF_PINNED': '1', 'PERO_OCR_VERIF': '1', 'PYTHONDONTWRITEBYTECODE': '1',
    'NUMBA_CACHE_DIR': '/dev/shm/verif-numba-cache',
}


def ensure_pinned_env():
    """Re-exec once so that hash seed and thread counts are fixed before any import."""
    if os.environ.get('VERIF_PINNED') == '1':
        return
    env = dict(os.environ)
    hs = env.get('VERIF_HASHSEED')
    env.update(PINNED_ENV)
    if hs is not None:
        env['PYTHONHASHSEED'] = hs
    os.execve(sys.executable, [sys.executable] + sys.argv, env)


def repo_path():
    return os.environ.get('VERIF_REPO', '/repo')


def install_repo_on_path():
    r = repo_path()
    for p in (os.path.join(r, 'user_scripts'), r):
        if p in sys.path:
            sys.path.remove(p)
        sys.path.insert(0, p)


class RunTimeout(BaseException):
    pass


def _alarm(signum, frame):
    raise RunTimeout()


def _indices(counter, nruns):
    """Dynamic work distribution: a run is a pure function of its index, so who executes it is irrelevant."""
    while True:
        with counter.get_lock():
            i = counter.value
            counter.value += 1
        if i >= nruns:
            return
        yield i


def _worker(mod, seed, tier, counter, nruns, out_path, wall_per_run, budget_s, t0):
    faulthandler.enable()
    signal.signal(signal.SIGALRM, _alarm)
    with open(out_path, 'w') as out:
        for i in _indices(counter, nruns):
            if budget_s is not None and time.time() - t0 > budget_s:
                out.write(json.dumps({'i': i, 'skipped': True}) + '\n')
                continue
            out.write(json.dumps({'i': i, 'start': True}) + '\n')
            out.flush()
            rec = {'i': i}
            signal.alarm(wall_per_run)
            try:
                plan = mod.gen_plan(seed, tier, i)
                res = mod.execute(plan)
                rec['res'] = res.to_json()
                rec['plan_sha'] = kernel.sha(plan)
                if res.violations or i < 3:
                    rec['plan'] = plan
            except RunTimeout:
                rec['harness_error'] = 'wall timeout of %ds in run %d' % (wall_per_run, i)
            except BaseException as e:  # noqa
                rec['harness_error'] = 'run %d: %s: %s\n%s' % (i, type(e).__name__, e, traceback.format_exc())
            finally:
                signal.alarm(0)
            out.write(json.dumps(rec, default=str) + '\n')
            out.flush()


def sweep_scratch():
    """Removes scratch trees under /dev/shm left behind by processes that no longer exist."""
    import glob
    import re
    import shutil
    for d in glob.glob('/dev/shm/verif-*-*-*'):
        mm = re.match(r'/dev/shm/verif-[a-z0-9]+-(\d+)-\d+$', d)
        if mm and not os.path.exists('/proc/%s' % mm.group(1)):
            shutil.rmtree(d, ignore_errors=True)


def run_batch(mod, seed, tier, nruns, nproc, wall_per_run=120, budget_s=None):
    """Fork nproc workers after warm-up; workers take the next run index from a shared counter"""
    ctx = multiprocessing.get_context('fork')
    tmp = '/dev/shm/verif-batch-%d' % os.getpid()
    os.makedirs(tmp, exist_ok=True)
    procs = []
    t0 = time.time()
    counter = ctx.Value('i', 0)
    for w in range(min(nproc, max(1, nruns))):
        path = os.path.join(tmp, 'w%d.jsonl' % w)
        p = ctx.Process(target=_worker, args=(mod, seed, tier, counter, nruns, path, wall_per_run, budget_s, t0))
        p.start()
        procs.append((p, path, None))
    records = {}
    errors = []
    for p, path, idx in procs:
        p.join()
        started = None
        try:
            with open(path) as f:
                for line in f:
                    rec = json.loads(line)
                    if rec.get('start'):
                        started = rec['i']
                        continue
                    records[rec['i']] = rec
                    started = None
        except FileNotFoundError:
            errors.append('worker produced no output')
        if p.exitcode != 0:
            if started is not None and p.exitcode < 0:
                # the interpreter itself died (e.g. SIGSEGV inside a native library fed corrupt data by the
                # code under test): classified below by re-running that one plan in isolation
                records[started] = {'i': started, 'died': -p.exitcode}
            else:
                errors.append('worker died with exit code %s in run %s' % (p.exitcode, started))
        try:
            os.remove(path)
        except OSError:
            pass
    try:
        os.rmdir(tmp)
    except OSError:
        pass
    sweep_scratch()
    for i in sorted(records):
        if 'harness_error' in records[i]:
            errors.append(records[i]['harness_error'])
    return records, errors


# ------------------------------------------------------------- known findings
def load_known():
    path = os.path.join(VERIF, 'known_findings.json')
    if not os.path.exists(path):
        return []
    with open(path) as f:
        return json.load(f).get('findings', [])


def match_known(known, prop, signature):
    for k in known:
        if k.get('status') == 'open' and k.get('property') == prop and k.get('signature') == signature:
            return k
    return None


# ------------------------------------------------------------------- shrinking
def same_failure(mod, plan, signature):
    try:
        res = mod.execute(plan)
    except BaseException:  # noqa
        return False
    return any(v.signature == signature for v in res.violations)


def shrink(mod, plan, signature, max_execs=150, wall_s=90):
    """Greedy delta debugging over the candidate simplifications the world offers,
    keeping a candidate only if it fails with the same signature."""
    t0 = time.time()
    execs = 0
    improved = True
    while improved and execs < max_execs and time.time() - t0 < wall_s:
        improved = False
        for cand in mod.shrink_candidates(plan):
            if execs >= max_execs or time.time() - t0 > wall_s:
                break
            execs += 1
            if same_failure(mod, cand, signature):
                plan = cand
                improved = True
                break
    return plan, execs


def write_replay(prop, plan, violation, seed, note=''):
    d = os.environ.get('VERIF_REPLAY_DIR', os.path.join(VERIF, 'replays'))
    os.makedirs(d, exist_ok=True)
    name = '%s-%s-%s.json' % (prop, seed, kernel.sha([plan, violation.signature]))
    path = os.path.join(d, name)
    with open(path, 'w') as f:
        json.dump({'property': prop, 'seed': seed, 'expect_signature': violation.signature,
                   'message': violation.message, 'note': note, 'plan': plan}, f, indent=1, default=str)
    return path


def replay_in_fresh_interpreter(prop, path):
    """Returns the set of signatures the replay reproduces in a new process."""
    cmd = [sys.executable, os.path.join(VERIF, 'checks', 'run.py'), prop, 'replay', path, '--json']
    env = dict(os.environ)
    env.pop('VERIF_PINNED', None)
    try:
        out = subprocess.run(cmd, capture_output=True, text=True, timeout=600, env=env)
    except subprocess.TimeoutExpired:
        return None
    if out.returncode < 0:
        return {'interpreter-died|signal-%d' % -out.returncode}
    for line in out.stdout.splitlines():
        if line.startswith('REPLAY-JSON '):
            return set(json.loads(line[len('REPLAY-JSON '):])['signatures'])
    return None


# -------------------------------------------------------------------- the check
def check(mod, tier, seed):
    t_start = time.time()
    cfg = mod.TIERS[tier]
    nproc = int(os.environ.get('VERIF_PROCS', '16'))
    install_repo_on_path()
    silence_logging()
    mod.warmup()
    nruns = int(os.environ.get('VERIF_RUNS', cfg['runs']))
    st_procs, st_count = None, min(nruns, cfg.get('selftest', 32))
    if os.environ.get('VERIF_SELFTEST', '1') != '0':
        st_procs = start_selftest(mod, tier, st_count)
    records, errors = run_batch(mod, seed, tier, nruns, nproc,
                                wall_per_run=cfg.get('wall_per_run', 180),
                                budget_s=cfg.get('budget_s'))
    known = load_known()
    selftest_report = None
    if st_procs is not None:
        selftest_report, st_errors = finish_selftest(st_procs, records, st_count)
        errors += st_errors

    probes, faults, states, nontrivial = {}, {}, set(), set()
    sim_time, sim_procs, evaluations, skipped = 0.0, 0, 0, 0
    by_sig = {}
    samples = []
    excerpt = None
    died = []
    for i in sorted(records):
        rec = records[i]
        if rec.get('skipped'):
            skipped += 1
            continue
        if rec.get('died'):
            died.append((i, rec['died']))
            continue
        if 'res' not in rec:
            continue
        r = rec['res']
        evaluations += r.get('info', {}).get('evaluations', 1)
        for k, v in r['probes'].items():
            probes[k] = probes.get(k, 0) + v
        for k, v in r['faults'].items():
            faults[k] = faults.get(k, 0) + v
        for s in r['states']:
            states.add(s if isinstance(s, str) else kernel.canonical(s))
        nt = r['nontrivial']
        if nt:
            for s in (nt if isinstance(nt, list) else [nt]):
                nontrivial.add(s)
        sim_time += r['sim_time']
        sim_procs += r['sim_processes']
        if len(samples) < 3 and 'plan' in rec and not r['violations']:
            samples.append({'run_index': i, 'plan': rec['plan'], 'digest': r['digest']})
        if excerpt is None and r.get('excerpt'):
            excerpt = r['excerpt']
        for v in r['violations']:
            by_sig.setdefault(v['signature'], []).append((i, rec.get('plan'), v))

    wall = time.time() - t_start
    violations_out, known_hit, also_seen = [], [], []
    exit_code = 0
    for sig in sorted(by_sig):
        i, plan, vj = by_sig[sig][0]
        v = kernel.Violation.from_json(vj)
        k = match_known(known, mod.PROP, sig)
        if k is not None:
            print('KNOWN-FINDING: property=%s %s' % (mod.PROP, k['what']))
            known_hit.append({'signature': sig, 'what': k['what'], 'occurrences': len(by_sig[sig])})
            continue
        if len(violations_out) >= MAX_REPORTED:
            print('ALSO-SEEN property=%s signature=%s occurrences=%d (not minimised: more than %d distinct violations)' % (
                mod.PROP, sig, len(by_sig[sig]), MAX_REPORTED))
            also_seen.append({'signature': sig, 'occurrences': len(by_sig[sig]), 'message': v.message})
            continue
        fail_plan = (v.detail or {}).get('plan') or plan
        small, execs = shrink(mod, fail_plan, sig)
        try:
            for v2 in mod.execute(small).violations:
                if v2.signature == sig:
                    v = v2
        except BaseException:  # noqa
            pass
        path = write_replay(mod.PROP, small, v, seed, note='minimised with %d executions from run %d' % (execs, i))
        got = replay_in_fresh_interpreter(mod.PROP, path)
        if got is None or sig not in got:
            os.remove(path)
            path = write_replay(mod.PROP, fail_plan, v, seed, note='unminimised plan of run %d' % i)
            got = replay_in_fresh_interpreter(mod.PROP, path)
            if got is None or sig not in got:
                errors.append('violation %s of run %d does not replay in a fresh interpreter (%s)' % (sig, i, path))
                continue
        print('VIOLATION property=%s replay=%s' % (mod.PROP, path))
        print('  signature=%s occurrences=%d message=%s' % (sig, len(by_sig[sig]), v.message))
        violations_out.append({'signature': sig, 'replay': path, 'message': v.message,
                               'occurrences': len(by_sig[sig])})
        exit_code = 1

    for i, sig_no in died[:8]:
        # a run during which the interpreter died: reproduce it alone in a fresh interpreter
        plan = mod.gen_plan(seed, tier, i)
        sig = 'interpreter-died|signal-%d' % sig_no
        v = kernel.Violation(mod.PROP, 'crash', sig, 'the interpreter died with signal %d while executing run %d' % (sig_no, i))
        path = write_replay(mod.PROP, plan, v, seed, note='unminimised plan of run %d (the process died, no minimisation)' % i)
        got = replay_in_fresh_interpreter(mod.PROP, path)
        if any(x['signature'] == sig for x in violations_out):
            os.remove(path)
            continue
        if got and sig in got:
            print('VIOLATION property=%s replay=%s' % (mod.PROP, path))
            print('  signature=%s occurrences=%d message=%s' % (sig, len(died), v.message))
            violations_out.append({'signature': sig, 'replay': path, 'message': v.message, 'occurrences': len(died)})
            exit_code = 1
        else:
            os.remove(path)
            errors.append('worker died with signal %d in run %d and the death does not reproduce in isolation' % (sig_no, i))
    missing = [p for p in mod.REQUIRED_PROBES if probes.get(p, 0) == 0]
    if missing and exit_code == 0:
        errors.append('probes stuck at zero (workload drifted into trivial territory): %s' % missing)
    if skipped:
        errors.append('%d runs skipped: wall budget exhausted' % skipped)

    runs_per_hour = int(evaluations / max(wall, 1e-9) * 3600)
    evidence = {
        'property_id': mod.PROP, 'tier': tier, 'seed': seed, 'level': mod.LEVEL,
        'coverage': {
            'evaluations': evaluations,
            'distinct_nontrivial': len(nontrivial),
            'rule': mod.RULE,
            'samples': samples + ([{'event_log_excerpt': excerpt}] if excerpt else []),
            'exhaustive': False,
            'plans': len(records) - skipped,
            'simulated_processes': sim_procs,
            'runs_per_hour': runs_per_hour,
            'sim_time_s': round(sim_time, 3),
            'seeds': {'VERIF_SEED': seed, 'streams': 'sha256(seed|property|tier|run_index|stream)', 'run_indices': [0, nruns - 1]},
            'fault_counts': dict(sorted(faults.items())),
            'probes': dict(sorted(probes.items())),
            'distinct_states': {'count': len(states), 'measure': mod.DISTINCT_MEASURE},
            'components_real': mod.COMPONENTS_REAL,
            'components_stub': mod.COMPONENTS_STUB,
            'known_findings_hit': known_hit,
            'determinism_selftest': selftest_report,
            'violations': violations_out,
            'violations_also_seen': also_seen,
            'harness_errors': errors[:10],
            'repo': repo_path(),
        },
        'assumptions': mod.ASSUMPTIONS,
        'wall_s': round(time.time() - t_start, 2),
        'violations': len(violations_out),
    }
    if hasattr(mod, 'evidence_extra'):
        evidence['coverage'].update(mod.evidence_extra(records))
    evdir = os.environ.get('VERIF_EVIDENCE_DIR', os.path.join(VERIF, 'evidence'))
    os.makedirs(evdir, exist_ok=True)
    with open(os.path.join(evdir, mod.PROP + '.json'), 'w') as f:
        json.dump(evidence, f, indent=1, default=str)

    print('%s %s seed=%d: %d evaluations (%d plans, %d simulated processes) in %.1fs, %d distinct non-trivial, '
          '%d violations, %d known findings, %d harness errors' % (
              mod.PROP, tier, seed, evaluations, len(records) - skipped, sim_procs, time.time() - t_start,
              len(nontrivial), len(violations_out), len(known_hit), len(errors)))
    if exit_code == 0 and errors:
        for e in errors[:5]:
            print('HARNESS-ERROR: ' + e.strip().splitlines()[-1] if e.strip() else 'HARNESS-ERROR')
            print(e)
        return 2
    return exit_code


def digests(mod, tier, seed, count):
    """Event-log digests of run indices 0..count-1 (used by the determinism self-test)."""
    install_repo_on_path()
    silence_logging()
    mod.warmup()
    nproc = int(os.environ.get('VERIF_PROCS', '16'))
    saved = os.environ.get('VERIF_RUNS')
    records, errors = run_batch(mod, seed, tier, count, nproc, wall_per_run=mod.TIERS[tier].get('wall_per_run', 180))
    out = {}
    for i, rec in records.items():
        if 'res' in rec:
            out[str(i)] = [rec['res']['digest'], sorted(v['signature'] for v in rec['res']['violations']), rec['plan_sha']]
        else:
            out[str(i)] = ['ERROR', [rec.get('harness_error', '?')[-200:]], '']
    print('DIGESTS ' + json.dumps(out, sort_keys=True))
    return 0 if not errors else 2


def start_selftest(mod, tier, count):
    """Starts two fresh interpreters (other PYTHONHASHSEED, other worker counts) that re-execute
    the first `count` plans; runs concurrently with the main batch."""
    procs = []
    for hs, np_ in (('1', '3'), ('4242', '5')):
        env = dict(os.environ)
        env.pop('VERIF_PINNED', None)
        env.pop('VERIF_RUNS', None)
        env['VERIF_HASHSEED'] = hs
        env['VERIF_PROCS'] = np_
        cmd = [sys.executable, os.path.join(VERIF, 'checks', 'run.py'), mod.PROP, 'digests', tier, str(count)]
        procs.append((hs, np_, subprocess.Popen(cmd, stdout=subprocess.PIPE, stderr=subprocess.DEVNULL, text=True, env=env)))
    return procs


def finish_selftest(procs, records, count):
    """Diffs event-log digests, violation signatures and plan hashes of the variants against the main batch."""
    mine = {}
    for i in range(count):
        rec = records.get(i)
        if rec and 'res' in rec:
            mine[str(i)] = [rec['res']['digest'], sorted(v['signature'] for v in rec['res']['violations']), rec['plan_sha']]
    report = {'plans_compared': len(mine), 'variants': [], 'mismatches': 0}
    errors = []
    for hs, np_, p in procs:
        try:
            out, _ = p.communicate(timeout=1800)
        except subprocess.TimeoutExpired:
            p.kill()
            errors.append('determinism self-test variant hashseed=%s timed out' % hs)
            continue
        other = None
        for line in out.splitlines():
            if line.startswith('DIGESTS '):
                other = json.loads(line[len('DIGESTS '):])
        if other is None:
            errors.append('determinism self-test variant hashseed=%s produced no digests' % hs)
            continue
        bad = [i for i in mine if other.get(i) != mine[i]]
        report['variants'].append({'PYTHONHASHSEED': hs, 'workers': int(np_), 'compared': len(mine), 'mismatches': len(bad)})
        report['mismatches'] += len(bad)
        if bad:
            errors.append('NONDETERMINISM: run %s digest %s vs %s under PYTHONHASHSEED=%s workers=%s' % (bad[0], mine[bad[0]], other.get(bad[0]), hs, np_))
    return report, errors


def replay(mod, path, as_json=False):
    install_repo_on_path()
    silence_logging()
    mod.warmup()
    with open(path) as f:
        rp = json.load(f)
    res = mod.execute(rp['plan'])
    sigs = sorted({v.signature for v in res.violations})
    if as_json:
        print('REPLAY-JSON ' + json.dumps({'signatures': sigs, 'digest': res.digest}))
        return 0
    known = load_known()
    code = 0
    for v in res.violations:
        k = match_known(known, mod.PROP, v.signature)
        if k:
            print('KNOWN-FINDING: property=%s %s' % (mod.PROP, k['what']))
            continue
        print('VIOLATION property=%s replay=%s' % (mod.PROP, path))
        print('  signature=%s message=%s' % (v.signature, v.message))
        code = 1
    want = rp.get('expect_signature')
    print('replay digest=%s expected_signature=%s reproduced=%s' % (res.digest, want, want in sigs))
    if res.excerpt:
        for e in res.excerpt[:60]:
            print('   ', e)
    return code


def silence_logging():
    """The code under test logs swallowed per-line failures; keep them off the console."""
    import logging
    root = logging.getLogger()
    root.handlers = [logging.NullHandler()]
