"""C17 - resuming an interrupted batch completes every requested output."""
from sim import resume

PROP = 'C17'
LEVEL = 'fault_enumeration'
TIERS = {
    'quick': {'runs': 2400, 'layer_a': 372, 'wall_per_run': 300},
    'thorough': {'runs': 40000, 'layer_a': 6200, 'wall_per_run': 300, 'selftest': 400},
}
REQUIRED_PROBES = ['resume_skipped_and_processed', 'crash_inside_batch', 'crash_before_first_write',
                   'crash_with_2plus_pages_partial', 'id_with_extension_token_or_alias', 'multi_crash_history',
                   'configurations_enumerated', 'pool_runs', 'page_failed_transiently', 'unrelated_files_in_output_folders', 'lmdb_line_output',
                   'input_pages_arriving_before_the_resume', 'output_root_with_metacharacters',
                   'earlier_run_requested_fewer_outputs']
RULE = ('layer A (fault enumeration): for each seeded configuration (pipeline mode, 1-4 pages, 0-3 lines, page-id '
        'class incl. dotted ids / ids containing .xml/.jpg/.logits / alias pairs, subset of requested outputs - all '
        '31 subsets are cycled -, decoder on/off, image extension, listdir order, clock jumps) EVERY single kill '
        'point between two output writes (before the first ... after the last) is executed, each followed by an '
        'uninterrupted resume and a nothing-left run; layer B (seeded search): histories of 1-3 successive kills, '
        'process pools of 2-3 workers with plan-decided interleavings. evaluations = histories executed. '
        'non-trivial = a kill landed strictly inside the batch and a later run both skipped and processed a page; '
        'distinct = distinct (configuration signature, per-page present-output bitmaps at every run start)')
DISTINCT_MEASURE = 'distinct (configuration signature, per-page bitmap of present/partial/absent requested outputs) at a process start'
COMPONENTS_REAL = ['parse_folder.main / parse_arguments / load_already_processed_files* / Computator',
                   'PageParser, LineCropper + EngineLineCropper, PageOCR + PytorchEngineLineOCR.process_lines/run_ocr/greedy_decode_ctc',
                   'PageDecoder + CTCPrefixLogRawNumpyDecoder + LMWrapper (when configured)',
                   'PageLayout PAGE XML / ALTO / logits / render I/O, lxml, OpenCV codecs, pickle of Computator per pool chunk']
COMPONENTS_STUB = ['OCR network -> TorchScript colour-classifier checkpoint loaded by the real engine (sim.stubocr)',
                   'language model -> sim.toylm', 'multiprocessing.Pool -> SimPool (CPython chunking, per-chunk pickle copy, baton-scheduled threads)',
                   'os.listdir order, time/datetime -> plan-decided', 'process = in-process call of main(); kill = SimCrash at a write seam']
ASSUMPTIONS = ['kills are modelled at write-call granularity (a write is atomic); torn writes are outside the property',
               'simulated processes share one interpreter; state a real restart resets but an in-process restart does not: logging configuration, numba JIT cache, torch flags',
               'exhaustive only over the single-kill points of each sampled configuration, never over the configuration space']


def warmup():
    import torch
    torch.set_num_threads(1)
    import cv2
    cv2.setNumThreads(1)
    import parse_folder  # noqa
    from sim import pfworld
    pfworld.assert_pool_model()
    for i in (0, 1, 2):
        p = resume.make_plan(0, 'warm', i, 0, False)
        resume.execute(p)


def gen_plan(seed, tier, index):
    cfg = TIERS.get(tier, TIERS['quick'])
    return resume.make_plan(seed, tier, index, cfg['layer_a'], True)


execute = resume.execute
shrink_candidates = resume.shrink_candidates


def evidence_extra(records):
    pts = sum(r['res'].get('info', {}).get('crash_points', 0) for r in records.values() if 'res' in r)
    inter = set()
    for r in records.values():
        inter.update(r.get('res', {}).get('info', {}).get('interleavings', []))
    return {'distinct_pool_interleavings': {'count': len(inter), 'measure': 'distinct (task count, workers, sequence of workers given the baton at seams) per pool run'},
            'single_kill_points_enumerated': pts,
            'exhaustive_note': 'every single kill point of each layer-A configuration was executed (exhaustive per configuration only)'}
