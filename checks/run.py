#!/venv/bin/python
"""run.py <Cxx> quick|thorough|replay <file> [--json]

Run as a script (not ``-m``) so that every module is loaded exactly once.
Exit 0 = property held on everything explored; 1 = VIOLATION printed;
2 = harness error (never to be read as a pass or as a violation).
"""
import importlib
import os
import sys

HERE = os.path.dirname(os.path.abspath(__file__))
sys.path.insert(0, HERE)
sys.path.insert(0, os.path.dirname(HERE))

import harness  # noqa: E402


def main():
    if len(sys.argv) < 3:
        print(__doc__)
        return 2
    harness.ensure_pinned_env()
    harness.install_repo_on_path()
    prop, action = sys.argv[1], sys.argv[2]
    mod = importlib.import_module(prop.lower())
    seed = int(os.environ.get('VERIF_SEED', '20261004'))
    if action in ('quick', 'thorough'):
        return harness.check(mod, action, seed)
    if action == 'digests':
        return harness.digests(mod, sys.argv[3], seed, int(sys.argv[4]))
    if action == 'replay':
        return harness.replay(mod, sys.argv[3], as_json='--json' in sys.argv)
    print(__doc__)
    return 2


if __name__ == '__main__':
    sys.exit(main())
